package main

import (
	"fmt"
	"math"
	"os"
	"strings"
	"time"

	"github.com/tdewolff/canvas"
	"verifharness/hc"
)

// ---------------------------------------------------------------------------------------------
// 4. region refinement, flat inputs: the exact Lean specification judges the real Stroke output

const snapMargin = 1e-6 // Settle's snap grid (1e-8) and float noise, generously

type polyline struct {
	pts    []hc.P2
	closed bool
}

// input as offset() sees it: per subpath the vertex chain (consecutive duplicates removed)
func polylinesOf(p *canvas.Path) ([]polyline, bool) {
	var out []polyline
	for _, pi := range p.Split() {
		segs, err := hc.Decode(pi.Data())
		if err != nil {
			return nil, false
		}
		pl := polyline{}
		for _, s := range segs {
			switch s.Kind {
			case 'M', 'L':
				if len(pl.pts) == 0 || pl.pts[len(pl.pts)-1] != s.End {
					pl.pts = append(pl.pts, s.End)
				}
			case 'Z':
				pl.closed = true
			default:
				return nil, false
			}
		}
		if pl.closed && len(pl.pts) > 1 && pl.pts[0] == pl.pts[len(pl.pts)-1] {
			pl.pts = pl.pts[:len(pl.pts)-1]
		}
		if len(pl.pts) >= 2 {
			out = append(out, pl)
		}
	}
	return out, true
}

func (pl polyline) segs() [][2]hc.P2 {
	var s [][2]hc.P2
	for i := 0; i+1 < len(pl.pts); i++ {
		s = append(s, [2]hc.P2{pl.pts[i], pl.pts[i+1]})
	}
	if pl.closed {
		s = append(s, [2]hc.P2{pl.pts[len(pl.pts)-1], pl.pts[0]})
	}
	return s
}

func unit(v hc.P2) hc.P2 {
	l := v.Len()
	if l == 0 {
		return hc.P2{}
	}
	return v.Mul(1 / l)
}

type strokeStyle struct {
	cap, join int
	limit     float64
}

func (s strokeStyle) name() string { return capNames[s.cap] + ":" + joinNames[s.join] }

// flagsFor computes the property's one-sided allowances for one query point:
//
//	bit 0: not in the guaranteed set (slab of a segment, disc of a round join, disc of a round/square
//	       cap end) -> "closer than w/2 - tol => filled" is not demanded (beyond a butt cut, outer
//	       wedge of a bevel/miter join)
//	bit 1: inside a square cap (w/2 beyond an open end) or within limit*w/2 of a join vertex of a
//	       miter/arcs join -> "farther than w/2 + tol => not filled" is not demanded
//
// joinFilled: p lies in the part of the join at vertex v (previous vertex a, next vertex b) that the
// joiner must fill on the outer side of the bend, inside the wedge between the two end normals:
// every joiner fills the bevel triangle; a round join the sector of radius w/2; an unclipped miter
// (Miter/MiterClip always, Arcs/ArcsClip only between straight segments) the kite up to the
// intersection of the two outer offset lines. `in` shrinks the shapes by the tolerance band.
func joinFilled(p, a, v, b hc.P2, st strokeStyle, hw, lo, band float64, straight bool) bool {
	d0, d1 := unit(v.Sub(a)), unit(b.Sub(v))
	q := p.Sub(v)
	if q.Dot(d0) < 0 || q.Dot(d1) > 0 {
		return false // not in the wedge
	}
	if st.join == 1 {
		return q.Len() < lo
	}
	cr := d0.Cross(d1)
	if math.Abs(cr) < 1e-9 {
		return false // straight on, or a 180 degree reversal: no outer side
	}
	n0, n1 := hc.P2{X: d0.Y, Y: -d0.X}, hc.P2{X: d1.Y, Y: -d1.X} // left bend: outer side is the right
	if cr < 0 {
		n0, n1 = n0.Mul(-1), n1.Mul(-1)
	}
	in := lo
	m := unit(n0.Add(n1))
	if q.Dot(m) < in*m.Dot(n0) {
		return true // bevel triangle
	}
	lim := math.Max(st.limit, 1.001)
	if (st.join == 2 || st.join == 3 || (straight && st.join >= 4)) && lim*lim*(1+n0.Dot(n1)) > 2*(1+1e-6) {
		return q.Dot(n0) < in && q.Dot(n1) < in
	}
	_ = band
	return false
}

// clipCut: float version of Canvas.C04.Spec.inClipCut — the cut miter of a clipping joiner: in the
// cone of the two outer normals, below both outer offset lines (grown to hw+band) and at most
// limit*hw+band from the vertex along the bisector.
func clipCut(p, a, v, b hc.P2, st strokeStyle, hw, band float64) bool {
	if st.join != 3 && st.join != 5 {
		return false
	}
	d0, d1 := unit(v.Sub(a)), unit(b.Sub(v))
	cr := d0.Cross(d1)
	if math.Abs(cr) < 1e-9 {
		return false
	}
	n0, n1 := hc.P2{X: d0.Y, Y: -d0.X}, hc.P2{X: d1.Y, Y: -d1.X}
	if cr < 0 {
		n0, n1 = n0.Mul(-1), n1.Mul(-1)
	}
	q := p.Sub(v)
	cc := n0.Cross(n1)
	sg := 1.0
	if cc < 0 {
		sg = -1
	}
	if sg*q.Cross(n1) < 0 || sg*n0.Cross(q) < 0 {
		return false
	}
	m := unit(n0.Add(n1))
	lim := math.Max(st.limit, 1.001)
	return q.Dot(n0) <= hw+band && q.Dot(n1) <= hw+band && q.Dot(m) <= lim*hw+band
}

func flagsFor(p hc.P2, pls []polyline, st strokeStyle, hw, lo, band float64) int {
	guaranteed := false
	farExempt := false
	clipZone := false
	beyondCut := false
	for _, pl := range pls {
		sg := pl.segs()
		for _, ab := range sg {
			d := ab[1].Sub(ab[0])
			l := d.Len()
			u := unit(d)
			t := p.Sub(ab[0]).Dot(u)
			// the cut of a butt cap is only located up to the tolerance band: stay `band` inside the slab
			if t >= band && t <= l-band && math.Abs(p.Sub(ab[0]).Cross(u)) < lo {
				guaranteed = true
			}
		}
		n := len(pl.pts)
		for i, v := range pl.pts {
			isEnd := !pl.closed && (i == 0 || i == n-1)
			if isEnd {
				var u hc.P2 // outward tangent
				if i == 0 {
					u = unit(pl.pts[0].Sub(pl.pts[1]))
				} else {
					u = unit(pl.pts[n-1].Sub(pl.pts[n-2]))
				}
				along := p.Sub(v).Dot(u)
				// Round and Square caps contain the half disc beyond the end
				if st.cap != 0 && p.Dist(v) < lo && along >= 0 {
					guaranteed = true
				}
				if st.cap == 0 && along >= -band && p.Dist(v) <= hw+band {
					beyondCut = true
				}
				if st.cap == 2 {
					if along >= -band && along <= hw+band && math.Abs(p.Sub(v).Cross(u)) <= hw+band {
						farExempt = true
					}
				}
			} else {
				// a round join adds the sector between the two normals on the outer side: points of the
				// disc that project beyond the end of the previous and before the start of the next segment
				a, b := pl.pts[(i+n-1)%n], pl.pts[(i+1)%n]
				if joinFilled(p, a, v, b, st, hw, lo, band, true) {
					guaranteed = true
				}
				lim := math.Max(st.limit, 1.001)
				if st.join >= 2 && (p.Dist(v) <= lim*hw+band || clipCut(p, a, v, b, st, hw, band)) {
					farExempt = true
				}
				if (st.join == 3 || st.join == 5) && p.Dist(v) <= math.Sqrt(1+lim*lim)*hw+band {
					clipZone = true
				}
			}
		}
	}
	f := 0
	if !guaranteed || beyondCut {
		f |= 1
	}
	if farExempt {
		f |= 2
	}
	if clipZone {
		f |= 4
	}
	return f
}

// probe points: arrangement cells plus points at chosen distances from segments, vertices and ends
func probePoints(c *hc.Ctx, pls []polyline, res [][]hc.P2, hw, band float64, m int, st strokeStyle) []hc.P2 {
	var ins [][]hc.P2
	for _, pl := range pls {
		ins = append(ins, pl.pts)
	}
	pts := c.SamplePoints(m/3, ins, res)
	dists := []float64{0.3 * hw, 0.8 * hw, hw - 2.5*band, hw - 1.2*band, hw + 1.2*band, hw + 2.5*band, 1.3 * hw, 2 * hw}
	lim := math.Max(st.limit, 1.001)
	for len(pts) < m {
		pl := pls[c.Intn(len(pls))]
		d := dists[c.Intn(len(dists))]
		if d <= 0 {
			continue
		}
		switch c.Intn(4) {
		case 0, 1: // beside a segment
			sg := pl.segs()
			ab := sg[c.Intn(len(sg))]
			t := c.Float()
			u := unit(ab[1].Sub(ab[0]))
			nrm := hc.P2{X: u.Y, Y: -u.X}
			if c.Bool() {
				nrm = nrm.Mul(-1)
			}
			pts = append(pts, ab[0].Add(ab[1].Sub(ab[0]).Mul(t)).Add(nrm.Mul(d)))
		case 2: // around a vertex
			v := pl.pts[c.Intn(len(pl.pts))]
			a := c.Range(0, 2*math.Pi)
			if c.Chance(0.3) && st.join >= 2 {
				d = []float64{lim*hw - 2*band, lim*hw + 2*band, math.Sqrt(1+lim*lim)*hw - 2*band, 0.5 * (1 + lim) * hw}[c.Intn(4)]
			}
			pts = append(pts, hc.P2{X: v.X + d*math.Cos(a), Y: v.Y + d*math.Sin(a)})
		default: // beyond an end / on the bisector of a vertex
			i := c.Intn(len(pl.pts))
			n := len(pl.pts)
			v := pl.pts[i]
			prev, next := pl.pts[(i+n-1)%n], pl.pts[(i+1)%n]
			var dir hc.P2
			if !pl.closed && i == 0 {
				dir = unit(v.Sub(next))
			} else if !pl.closed && i == n-1 {
				dir = unit(v.Sub(prev))
			} else {
				dir = unit(unit(v.Sub(prev)).Add(unit(v.Sub(next)))) // points to the outer side of the bend
				if c.Chance(0.3) && st.join >= 2 {
					d = []float64{lim*hw - 2*band, lim*hw + 2*band, math.Sqrt(1+lim*lim)*hw - 2*band}[c.Intn(3)]
				}
			}
			side := hc.P2{X: -dir.Y, Y: dir.X}.Mul(c.Range(-1, 1) * hw)
			if c.Bool() {
				side = hc.P2{}
			}
			pts = append(pts, v.Add(dir.Mul(d)).Add(side))
		}
	}
	return pts
}

func inputTokens(pls []polyline) string {
	var cs [][]hc.P2
	var cl []string
	for _, pl := range pls {
		cs = append(cs, pl.pts)
		cl = append(cl, hc.B(pl.closed))
	}
	return "IN " + hc.PolyTokens(cs) + " CL " + strings.Join(cl, " ")
}

func flagTokens(fl []int) string {
	s := make([]string, len(fl))
	for i, f := range fl {
		s[i] = fmt.Sprint(f)
	}
	return "FL " + strings.Join(s, " ")
}

// result contours: every subpath of the flattened result, implicitly closed
func resultContours(r *canvas.Path) ([][]hc.P2, bool) {
	segs, err := hc.Decode(r.Data())
	if err != nil {
		return nil, false
	}
	var out [][]hc.P2
	for _, sp := range hc.Subpaths(segs) {
		var ct []hc.P2
		for _, s := range sp {
			switch s.Kind {
			case 'M', 'L':
				if len(ct) == 0 || ct[len(ct)-1] != s.End {
					ct = append(ct, s.End)
				}
			case 'Z':
			default:
				return nil, false
			}
		}
		if len(ct) > 1 && ct[0] == ct[len(ct)-1] {
			ct = ct[:len(ct)-1]
		}
		if len(ct) >= 3 {
			out = append(out, ct)
		}
	}
	return out, true
}

func genFlatInput(c *hc.Ctx) (*canvas.Path, string) {
	q := func(r int) float64 { return float64(c.Intn(8*r+1)-4*r) / 4 }
	p := &canvas.Path{}
	switch c.Intn(8) {
	case 0: // open polyline, integer coordinates
		n := 2 + c.Intn(5)
		p.MoveTo(float64(c.Intn(13)-6), float64(c.Intn(13)-6))
		for i := 1; i < n; i++ {
			p.LineTo(float64(c.Intn(13)-6), float64(c.Intn(13)-6))
		}
		return p, "open-integer"
	case 1: // open polyline with short segments (quarter steps within +-1)
		n := 2 + c.Intn(6)
		x, y := q(3), q(3)
		p.MoveTo(x, y)
		for i := 1; i < n; i++ {
			x += float64(c.Intn(9)-4) / 4
			y += float64(c.Intn(9)-4) / 4
			p.LineTo(x, y)
		}
		return p, "open-short-segments"
	case 2: // zigzag: sharp angles
		n := 3 + c.Intn(4)
		x, y := q(2), q(2)
		p.MoveTo(x, y)
		for i := 1; i < n; i++ {
			x += float64(1+c.Intn(3)) / 4 * []float64{1, -0.5}[i%2] * 2
			if i%2 == 1 {
				y += float64(3 + c.Intn(5))
			} else {
				y -= float64(3 + c.Intn(5))
			}
			p.LineTo(x, y)
		}
		if c.Chance(0.3) {
			p.Close()
			return p, "closed-zigzag"
		}
		return p, "open-zigzag"
	case 3: // flat angles
		n := 3 + c.Intn(4)
		x, y := q(2), q(2)
		p.MoveTo(x, y)
		for i := 1; i < n; i++ {
			x += float64(2 + c.Intn(4))
			y += float64(c.Intn(3)-1) / 4
			p.LineTo(x, y)
		}
		return p, "open-flat-angles"
	case 4: // closed polygon on the grid
		var pool []hc.P2
		return c.GenPolygon(0, &pool, true), "closed-grid-polygon"
	case 5: // rectangles / squares (both orientations)
		var pool []hc.P2
		return c.GenPolygon(3, &pool, true), "closed-rectangles"
	case 6: // closed polygon with quarter coordinates, short edges
		n := 3 + c.Intn(4)
		p.MoveTo(q(2), q(2))
		for i := 1; i < n; i++ {
			p.LineTo(q(2), q(2))
		}
		p.Close()
		return p, "closed-quarter-polygon"
	default: // two subpaths, one open one closed
		p.MoveTo(q(4), q(4))
		p.LineTo(q(4), q(4))
		p.LineTo(q(4), q(4))
		p.MoveTo(q(4), q(4))
		p.LineTo(q(4), q(4))
		p.LineTo(q(4), q(4))
		p.Close()
		return p, "mixed-subpaths"
	}
}

func genStyle(c *hc.Ctx, it int) strokeStyle {
	if it%3 == 0 {
		return strokeStyle{1, 1, 4}
	}
	return strokeStyle{c.Intn(3), c.Intn(6), limits[c.Intn(len(limits))]}
}

// shortAtBend: some join vertex with turning angle t has an adjacent segment shorter than
// hw*|sin t| (180 degree reversals: shorter than hw) - then the inner triangle (pivot, pivot-n0,
// pivot-n1) of the join is not covered by both neighbouring segment rectangles.
func shortAtBend(pls []polyline, hw float64) bool {
	for _, pl := range pls {
		n := len(pl.pts)
		for i := range pl.pts {
			if !pl.closed && (i == 0 || i == n-1) {
				continue
			}
			a, v, b := pl.pts[(i+n-1)%n], pl.pts[i], pl.pts[(i+1)%n]
			d0, d1 := v.Sub(a), b.Sub(v)
			l0, l1 := d0.Len(), d1.Len()
			if l0 == 0 || l1 == 0 {
				continue
			}
			sin := math.Abs(d0.Cross(d1)) / (l0 * l1)
			if d0.Dot(d1) < 0 && sin < 1e-12 {
				sin = 1 // reversal
			}
			if sin > 1e-12 && math.Min(l0, l1) < hw*sin*(1+1e-9) {
				return true
			}
		}
	}
	return false
}

// inradiusEstimate: largest distance to the boundary over a 48x48 grid of interior points (a lower
// bound of the inradius of a closed polygon).
func inradiusEstimate(v []hc.P2) float64 {
	x0, y0, x1, y1 := math.Inf(1), math.Inf(1), math.Inf(-1), math.Inf(-1)
	for _, q := range v {
		x0, y0, x1, y1 = math.Min(x0, q.X), math.Min(y0, q.Y), math.Max(x1, q.X), math.Max(y1, q.Y)
	}
	best := 0.0
	cs := [][]hc.P2{v}
	const n = 48
	for i := 0; i < n; i++ {
		for j := 0; j < n; j++ {
			q := hc.P2{X: x0 + (x1-x0)*(float64(i)+0.5)/n, Y: y0 + (y1-y0)*(float64(j)+0.5)/n}
			if hc.WnFloat(q, cs) != 0 {
				best = math.Max(best, hc.DistToContours(q, cs))
			}
		}
	}
	return best
}

// beyondInradius: the half width reaches (90% of) the inradius of a closed subpath - the inner offset
// is empty or nearly so.
func beyondInradius(pls []polyline, hw float64) bool {
	for _, pl := range pls {
		if pl.closed && len(pl.pts) >= 3 && hw > 0.9*inradiusEstimate(pl.pts) {
			return true
		}
	}
	return false
}

// hasZeroLengthSegment: the path data contains a LineTo/Close whose start and end coincide. The builder
// never appends one directly, but LineTo's collinear-merge does (M0 0L-1 0L0 0 becomes M0 0L0 0).
func hasZeroLengthSegment(p *canvas.Path) bool {
	segs, err := hc.Decode(p.Data())
	if err != nil {
		return false
	}
	for _, s := range segs {
		if s.Kind == 'L' && s.P0 == s.End {
			return true
		}
	}
	return false
}

func widthClass(pls []polyline, w float64) string {
	minLen := math.Inf(1)
	for _, pl := range pls {
		for _, ab := range pl.segs() {
			minLen = math.Min(minLen, ab[0].Dist(ab[1]))
		}
	}
	if minLen < w {
		return "segment-shorter-than-width"
	}
	return "segments-longer-than-width"
}

// overlappingLines: two straight records of the given paths are collinear (within 4e-8 at both ends of the
// common part) over more than 1e-6 - the same cause predicate as harness/c10 (C10-stroke-sweep-retraced-edge):
// the stroke outline of such a path runs back over itself, the residue class on which the sweep still panics.
func overlappingLines(ps ...*canvas.Path) bool {
	type edge struct{ a, b hc.P2 }
	var es []edge
	for _, p := range ps {
		ss, err := hc.Decode(p.Data())
		if err != nil {
			continue
		}
		for _, sg := range ss {
			if (sg.Kind == 'L' || sg.Kind == 'Z') && sg.P0 != sg.End {
				es = append(es, edge{sg.P0, sg.End})
			}
		}
	}
	for i, e := range es {
		d := e.b.Sub(e.a)
		l := d.Len()
		u := d.Mul(1 / l)
		for j, f := range es {
			if i == j {
				continue
			}
			ta, tb := f.a.Sub(e.a).Dot(u), f.b.Sub(e.a).Dot(u)
			sa, sb := u.Cross(f.a.Sub(e.a)), u.Cross(f.b.Sub(e.a))
			if ta > tb {
				ta, tb, sa, sb = tb, ta, sb, sa
			}
			lo, hi := math.Max(ta, 0), math.Min(tb, l)
			if hi-lo <= 1e-6 || tb <= ta {
				continue
			}
			at := func(t float64) float64 { return sa + (sb-sa)*(t-ta)/(tb-ta) }
			if math.Abs(at(lo)) < 4e-8 && math.Abs(at(hi)) < 4e-8 {
				return true
			}
		}
	}
	return false
}

// retraceSuffix: "+retraces-own-edge" when one subpath goes back over an edge it has drawn,
// "+overlapping-edges" when edges of different subpaths coincide, "" otherwise.
func retraceSuffix(P *canvas.Path) string {
	for _, sub := range P.Split() {
		if overlappingLines(sub) {
			return "+retraces-own-edge"
		}
	}
	if overlappingLines(P) {
		return "+overlapping-edges"
	}
	return ""
}

// flatCorpus: minimised past failures, always run first (regression inputs of repaired defects).
var flatCorpus = []struct {
	path  string
	w     float64
	style strokeStyle
}{
	// Stroke panicked in Settle's tracer ("next node for result polygon is nil"), repaired by /repo 719b7ec
	{"M5 5L-4 -6L-4 1zM1 8L8 -4L0 4L3 3zM7 2L7 -6L-4 1L7 2L7 -2z", 2, strokeStyle{1, 4, 10}},
}

func regionFlat(c *hc.Ctx) {
	for it := 0; it < c.N; it++ {
		P, class := genFlatInput(c)
		if it < len(flatCorpus) {
			P, class = canvas.MustParseSVGPath(flatCorpus[it].path), "corpus"
		}
		pls, ok := polylinesOf(P)
		if !ok || len(pls) == 0 {
			c.Count("flat:skip-degenerate-input")
			continue
		}
		if os.Getenv("C04_DEBUG") != "" {
			fmt.Fprintln(os.Stderr, it, class, P.String(), P.Data())
		}
		w := []float64{0.25, 0.5, 1, 1.5, 2, 3, 5}[c.Intn(7)]
		st := genStyle(c, it)
		if it < len(flatCorpus) {
			w, st = flatCorpus[it].w, flatCorpus[it].style
		}
		hw := w / 2
		tol := hw / 50
		c.Evals++
		var R, Rf *canvas.Path
		if msg := hc.Try(func() {
			R = P.Stroke(w, cappers[st.cap], joiner(st.join, st.limit), tol)
			Rf = R.Flatten(tol)
		}); msg != "" {
			first := strings.SplitN(msg, "\n", 2)[0]
			c.Fail("panic:stroke:"+first+retraceSuffix(P), "Stroke panicked: "+first, map[string]any{"P": P.String(), "w": w, "style": st.name(), "limit": st.limit})
			continue
		}
		res, ok := resultContours(Rf)
		if !ok {
			c.Fail("result-not-flat", "flattened Stroke result is not a flat well-formed path", map[string]any{"P": P.String(), "w": w, "style": st.name()})
			continue
		}
		band := tol + snapMargin
		lo, hi := hw-band, hw+band
		pts := probePoints(c, pls, res, hw, band, 48, st)
		if jp := joinProbes(c, pls, func(hc.P2) bool { return true }, hw, st, 3); len(jp) > 0 {
			if len(jp) > 18 {
				jp = jp[:18]
			}
			pts = append(pts, jp...)
		}
		fl := make([]int, len(pts))
		for i, pt := range pts {
			fl[i] = flagsFor(pt, pls, st, hw, lo, band)
			// distribution of the probe points over the classes of the specification (float cross-check of
			// the flags the Lean specification computes exactly)
			if fl[i]&1 == 0 {
				c.Count("flat:point:demanded-filled")
			} else {
				c.Count("flat:point:nothing-demanded")
			}
			if fl[i]&2 != 0 {
				c.Count("flat:point:area-allowed(square-cap|miter-disc)")
			}
			if fl[i]&4 != 0 {
				c.Count("flat:point:clip-zone")
			}
		}
		head := "STROKE"
		if os.Getenv("C04_GOFLAGS") == "" {
			// the allowances are decided by the exact Lean specification (Canvas.C04.Spec); the float
			// flags computed here travel along only as a cross-check for the histogram
			head = fmt.Sprintf("STROKEX %d %d %s", st.cap, st.join, hc.Hs(st.limit, hw, band))
		}
		line := fmt.Sprintf(head+" %s %s %s %s %s R %s PTS %s %s INFO w=%v cap=%s join=%s limit=%v tol=%v P=%s", hc.H(lo), hc.H(hi), hc.H(lo-canvas.Tolerance), hc.H(hi+canvas.Tolerance), inputTokens(pls), hc.PolyTokens(res), hc.PtsTokens(pts), flagTokens(fl),
			w, capNames[st.cap], joinNames[st.join], st.limit, tol, strings.ReplaceAll(P.String(), " ", "_"))
		oc := "open"
		for _, pl := range pls {
			if pl.closed {
				oc = "closed"
			}
		}
		for _, pl := range pls {
			if pl.closed && !isSimple(pl.pts) {
				oc = "closed +self-intersecting"
			}
		}
		if shortAtBend(pls, hw) {
			oc += " +short-segment-at-bend"
		}
		if beyondInradius(pls, hw) {
			oc += " +beyond-inradius"
		}
		if hasZeroLengthSegment(P) {
			oc += " +zero-length-segment"
		}
		c.Case(line, "!", fmt.Sprintf("stroke:%s:%s", st.name(), oc))
		c.Count("flat:subpaths:" + oc)
		c.Distinct(P.String() + st.name() + fmt.Sprint(w))
		c.Count("flat:input:" + class)
		c.Count("flat:style:" + st.name())
		c.Count("flat:" + widthClass(pls, w))
		if it == 0 {
			c.Sample(fmt.Sprintf("Stroke(%v, %s, limit %v) of %q -> %q", w, st.name(), st.limit, P.String(), R.String()))
		}
		// the Go-side (float) version of the same predicate: only to make the search tier's output readable
		if c.Tier == "search" {
			for i, pt := range pts {
				d := math.Inf(1)
				for _, pl := range pls {
					for _, ab := range pl.segs() {
						d = math.Min(d, hc.DistPointSeg(pt, ab[0], ab[1]))
					}
				}
				filled := hc.WnFloat(pt, res) != 0
				if fl[i]&1 == 0 && d < lo-1e-9 && !filled {
					c.Count("flat:float-oracle:hole")
				} else if fl[i]&2 == 0 && d > hi+1e-9 && filled {
					c.Count("flat:float-oracle:spurious")
				}
			}
		}
	}
}

// ---------------------------------------------------------------------------------------------
// 5. Offset(d) of closed simple contours

func segsCross(a, b, c, d hc.P2) bool {
	o := func(p, q, r hc.P2) float64 { return q.Sub(p).Cross(r.Sub(p)) }
	d1, d2, d3, d4 := o(a, b, c), o(a, b, d), o(c, d, a), o(c, d, b)
	if ((d1 > 0 && d2 < 0) || (d1 < 0 && d2 > 0)) && ((d3 > 0 && d4 < 0) || (d3 < 0 && d4 > 0)) {
		return true
	}
	on := func(p, q, r hc.P2) bool {
		return o(p, q, r) == 0 && math.Min(p.X, q.X) <= r.X && r.X <= math.Max(p.X, q.X) && math.Min(p.Y, q.Y) <= r.Y && r.Y <= math.Max(p.Y, q.Y)
	}
	return on(a, b, c) || on(a, b, d) || on(c, d, a) || on(c, d, b)
}

func isSimple(v []hc.P2) bool {
	n := len(v)
	if n < 3 || hc.Area(v) == 0 {
		return false
	}
	for i := 0; i < n; i++ {
		for j := i + 1; j < n; j++ {
			if j == i+1 || (i == 0 && j == n-1) {
				// adjacent edges: only a fold-back counts
				a, b, cc := v[i], v[(i+1)%n], v[(i+2)%n]
				if j == n-1 && i == 0 {
					a, b, cc = v[n-1], v[0], v[1]
				}
				if b.Sub(a).Cross(cc.Sub(b)) == 0 && b.Sub(a).Dot(cc.Sub(b)) < 0 {
					return false
				}
				continue
			}
			if segsCross(v[i], v[(i+1)%n], v[j], v[(j+1)%n]) {
				return false
			}
		}
	}
	return true
}

func genSimplePolygon(c *hc.Ctx) ([]hc.P2, string) {
	for tries := 0; tries < 50; tries++ {
		var v []hc.P2
		class := ""
		switch c.Intn(4) {
		case 0:
			x0, y0 := float64(c.Intn(9)-4), float64(c.Intn(9)-4)
			w, h := float64(1+c.Intn(8)), float64(1+c.Intn(8))
			v = []hc.P2{{x0, y0}, {x0 + w, y0}, {x0 + w, y0 + h}, {x0, y0 + h}}
			class = "rectangle"
		case 1: // convex: points on a circle with quarter rounding
			n := 3 + c.Intn(6)
			r := float64(2 + c.Intn(5))
			a0 := c.Range(0, 2*math.Pi)
			for i := 0; i < n; i++ {
				a := a0 + 2*math.Pi*float64(i)/float64(n)
				v = append(v, hc.P2{math.Round(4*r*math.Cos(a)) / 4, math.Round(4*r*math.Sin(a)) / 4})
			}
			class = "convex"
		case 2: // L / U shapes: reflex right angles
			a, b := float64(3+c.Intn(5)), float64(3+c.Intn(5))
			s, t := float64(1+c.Intn(2)), float64(1+c.Intn(2))
			v = []hc.P2{{0, 0}, {a, 0}, {a, t}, {s, t}, {s, b}, {0, b}}
			class = "L-shape"
		default: // random grid polygon, kept if simple
			n := 4 + c.Intn(4)
			for i := 0; i < n; i++ {
				v = append(v, hc.P2{float64(c.Intn(13) - 6), float64(c.Intn(13) - 6)})
			}
			class = "random-simple"
		}
		if !isSimple(v) {
			continue
		}
		if c.Bool() {
			for i, j := 0, len(v)-1; i < j; i, j = i+1, j-1 {
				v[i], v[j] = v[j], v[i]
			}
		}
		return v, class
	}
	return []hc.P2{{0, 0}, {4, 0}, {4, 4}, {0, 4}}, "rectangle"
}

func offsetClosed(c *hc.Ctx) {
	for it := 0; it < c.N; it++ {
		v, class := genSimplePolygon(c)
		P := &canvas.Path{}
		P.MoveTo(v[0].X, v[0].Y)
		for _, q := range v[1:] {
			P.LineTo(q.X, q.Y)
		}
		P.Close()
		pls, ok := polylinesOf(P)
		if !ok || len(pls) != 1 || !pls[0].closed || len(pls[0].pts) < 3 {
			c.Count("offset:skip-degenerate-input")
			continue
		}
		d := []float64{0.25, 0.5, 1, 1.5, 2.5}[c.Intn(5)]
		if c.Bool() {
			d = -d
		}
		ccw := hc.Area(pls[0].pts) > 0
		grow := (d > 0) == ccw
		tol := math.Abs(d) / 50
		c.Evals++
		var R, Rf *canvas.Path
		if msg := hc.Try(func() {
			R = P.Offset(d, tol)
			Rf = R.Flatten(tol)
		}); msg != "" {
			first := strings.SplitN(msg, "\n", 2)[0]
			c.Fail("panic:offset:"+first, "Offset panicked: "+first, map[string]any{"P": P.String(), "d": d})
			continue
		}
		res, ok := resultContours(Rf)
		if !ok {
			c.Fail("result-not-flat", "flattened Offset result is not a flat well-formed path", map[string]any{"P": P.String(), "d": d})
			continue
		}
		band := tol + snapMargin
		ad := math.Abs(d)
		pts := probePoints(c, pls, res, ad, band, 48, strokeStyle{1, 1, 4})
		fl := make([]int, len(pts))
		line := fmt.Sprintf("OFFSET %s %s %s %s %s %s R %s PTS %s %s INFO d=%v tol=%v P=%s", hc.B(grow), hc.H(ad-band), hc.H(ad+band), hc.H(ad-band-canvas.Tolerance), hc.H(ad+band+canvas.Tolerance), inputTokens(pls), hc.PolyTokens(res), hc.PtsTokens(pts), flagTokens(fl),
			d, tol, strings.ReplaceAll(P.String(), " ", "_"))
		or := "cw"
		if ccw {
			or = "ccw"
		}
		gs := "shrink"
		if grow {
			gs = "grow"
		}
		suffix := ""
		if !grow && beyondInradius(pls, ad) {
			suffix = " +beyond-inradius"
		}
		c.Case(line, "!", fmt.Sprintf("offset:%s:%s%s", gs, class, suffix))
		c.Count("offset:" + gs + suffix)
		c.Distinct(P.String() + fmt.Sprint(d))
		c.Count(fmt.Sprintf("offset:%s %s d%+.0f %s", class, or, d/ad, gs))
		// orientation of the result follows the input (Settle + Reverse), counted not judged
		if len(res) > 0 {
			same := (hc.Area(res[0]) > 0) == ccw
			c.Count(fmt.Sprintf("offset:result-orientation-same=%v", same))
		} else {
			c.Count("offset:result-empty")
		}
		if it == 0 {
			c.Sample(fmt.Sprintf("Offset(%v) of %q -> %q", d, P.String(), R.String()))
		}
	}
}

// ---------------------------------------------------------------------------------------------
// 6. curved inputs: Go-side oracle with an independent fine flattening of the input

// bezierBound: the library flattens a cubic Bezier and its offsets within 4 tolerances (path_util.go
// cubicBezierDeviation, /repo f410714 + 07f2911: "steps and flat ranges are halved until that bound is within
// 4*tolerance"; the pinned TestCubicBezierStrokeFlatten forbids a tighter bound). Inputs with Bezier
// segments are therefore judged with 4*tol instead of 1*tol.
const bezierBound = 4.0

func hasBezier(P *canvas.Path) bool {
	segs, err := hc.Decode(P.Data())
	if err != nil {
		return false
	}
	for _, s := range segs {
		if s.Kind == 'Q' || s.Kind == 'C' {
			return true
		}
	}
	return false
}

// offsetIrregular: the parallel curve of some Bezier segment at one of the signed distances ds (positive =
// right-hand side) is not regular: 1 + d*kappa <= 0.05 somewhere (|d| reaches the radius of curvature on
// the inner side: swallowtail), or the speed (nearly) vanishes (cusp, near-cusp, reversal of a
// near-collinear control polygon). There the library's 4*tol bound does not hold (residue class of
// C04-cubic-offset-exceeds-tolerance).
func offsetIrregular(P *canvas.Path, ds ...float64) bool {
	segs, err := hc.Decode(P.Data())
	if err != nil {
		return false
	}
	for _, s := range segs {
		var p0, p1, p2, p3 hc.P2
		switch s.Kind {
		case 'C':
			p0, p1, p2, p3 = s.P0, s.P1, s.P2, s.End
		case 'Q':
			p0, p3 = s.P0, s.End
			p1 = p0.Add(s.P1.Sub(p0).Mul(2.0 / 3))
			p2 = p3.Add(s.P1.Sub(p3).Mul(2.0 / 3))
		default:
			continue
		}
		a := p1.Sub(p0).Mul(3)
		b := p2.Sub(p1).Mul(3)
		cc := p3.Sub(p2).Mul(3)
		maxSpeed, minSpeed := 0.0, math.Inf(1)
		type sk struct{ speed, kappa float64 }
		var sm []sk
		const n = 2000
		for i := 0; i <= n; i++ {
			t := float64(i) / n
			u := 1 - t
			d1 := a.Mul(u * u).Add(b.Mul(2 * u * t)).Add(cc.Mul(t * t))
			d2 := b.Sub(a).Mul(2 * u).Add(cc.Sub(b).Mul(2 * t))
			sp := d1.Len()
			maxSpeed, minSpeed = math.Max(maxSpeed, sp), math.Min(minSpeed, sp)
			k := 0.0
			if sp > 0 {
				k = d1.Cross(d2) / (sp * sp * sp)
			}
			sm = append(sm, sk{sp, k})
		}
		if maxSpeed == 0 || minSpeed < 1e-3*maxSpeed {
			return true
		}
		for _, x := range sm {
			for _, d := range ds {
				// right-hand offset by d of a curve turning left (kappa > 0) stretches by 1 + d*kappa
				if 1+d*x.kappa <= 0.05 {
					return true
				}
			}
		}
	}
	return false
}

// aborted is set after a library call did not return within the watchdog time: the leaked goroutine
// keeps running (and may allocate), so the remaining generators of this run are skipped.
var aborted bool

// guarded runs f under hc.Try with a watchdog; hung = true when f did not return in time.
func guarded(f func()) (msg string, hung bool) {
	done := make(chan string, 1)
	go func() { done <- hc.Try(f) }()
	select {
	case m := <-done:
		return m, false
	case <-time.After(20 * time.Second):
		aborted = true
		return "", true
	}
}

// genTeardrop: a closed subpath of exactly ONE segment - a cubic that returns to its start point - with
// the corner angle at that point varied (half opening angle beta 8..82 degrees: turn 164..16 degrees),
// both orientations, rotated and translated. offset() joins the segment with itself at that vertex.
func genTeardrop(c *hc.Ctx) (*canvas.Path, string) {
	beta := []float64{8, 15, 30, 45, 45, 60, 75, 82}[c.Intn(8)]
	if c.Chance(0.4) {
		beta = c.Range(8, 82)
	}
	l := float64(6 + c.Intn(10))
	rot := float64(c.Intn(24)) * 15
	if c.Bool() {
		rot = c.Range(0, 360)
	}
	px, py := float64(c.Intn(9)-4), float64(c.Intn(9)-4)
	a0, a1 := (rot+90-beta)*math.Pi/180, (rot+90+beta)*math.Pi/180
	c1 := hc.P2{X: px + l*math.Cos(a0), Y: py + l*math.Sin(a0)}
	c2 := hc.P2{X: px + l*math.Cos(a1), Y: py + l*math.Sin(a1)}
	class := "closed-single-cubic-ccw"
	if c.Bool() {
		c1, c2 = c2, c1
		class = "closed-single-cubic-cw"
	}
	p := &canvas.Path{}
	p.MoveTo(px, py)
	p.CubeTo(c1.X, c1.Y, c2.X, c2.Y, px, py)
	p.Close()
	return p, class
}

// joinProbes: points on the outer side of every join vertex, inside the wedge between the two end
// normals, from well inside the bevel triangle out to the round-join arc / the miter tip.
func joinProbes(c *hc.Ctx, pls []polyline, isJoin func(hc.P2) bool, hw float64, st strokeStyle, per int) []hc.P2 {
	var out []hc.P2
	for _, pl := range pls {
		n := len(pl.pts)
		for i, v := range pl.pts {
			if (!pl.closed && (i == 0 || i == n-1)) || !isJoin(v) {
				continue
			}
			a, b := pl.pts[(i+n-1)%n], pl.pts[(i+1)%n]
			d0, d1 := unit(v.Sub(a)), unit(b.Sub(v))
			cr := d0.Cross(d1)
			if math.Abs(cr) < 1e-6 {
				continue
			}
			n0, n1 := hc.P2{X: d0.Y, Y: -d0.X}, hc.P2{X: d1.Y, Y: -d1.X}
			if cr < 0 {
				n0, n1 = n0.Mul(-1), n1.Mul(-1)
			}
			m := unit(n0.Add(n1))
			cosHalf := m.Dot(n0)
			half := math.Acos(math.Max(-1, math.Min(1, cosHalf)))
			rmax := 1.0
			if st.join >= 2 && cosHalf > 1e-3 {
				rmax = math.Min(1/cosHalf, math.Max(st.limit, 1.001)) // miter tip, or the limit
			}
			for k := 0; k < per; k++ {
				phi := c.Range(-0.9, 0.9) * half
				r := hw * c.Range(0.3, 1.05*rmax)
				if k%3 == 0 { // between the bevel chord and the arc / the tip
					r = hw * c.Range(cosHalf, rmax)
				}
				sn, cs := math.Sincos(phi)
				dir := hc.P2{X: m.X*cs - m.Y*sn, Y: m.X*sn + m.Y*cs}
				out = append(out, v.Add(dir.Mul(r)))
			}
		}
	}
	return out
}

// curvedCorpus: minimised past failures of the curved oracle, always run (cases 14, 15, …): regression
// inputs of repaired defects with the probe points that showed them.
var curvedCorpus = []struct {
	class  string
	path   string
	w      float64
	style  strokeStyle
	probes []hc.P2
}{
	// no half disc at the turning point of a collinear control polygon (/repo 5d54c65)
	{"corpus-cubic", "M0 0C6 0 -3 0 2 0", 1, strokeStyle{1, 1, 4}, []hc.P2{{X: 2.5132678466846783, Y: 0.0007365533300598658}, {X: 2.55, Y: 0}, {X: 0.1, Y: 0.05}}},
	// quadratic that returns to its start: the point at the end of the accepted piece was never emitted (/repo 5d54c65)
	{"corpus-cubic", "M0 0Q4 0 0 0", 2, strokeStyle{0, 0, 4}, []hc.P2{{X: 1.8, Y: -0.8}, {X: 2.5, Y: 0}, {X: 1, Y: 0.5}}},
	// cusp: no half disc above the tip (5,7.5) (/repo 5d54c65)
	{"corpus-cubic", "M0 0C10 10 0 10 10 0", 1, strokeStyle{0, 1, 4}, []hc.P2{{X: 5, Y: 7.8}, {X: 5.2, Y: 7.7}}},
	// tangent offset circles: sqrt of a rounding error gave NaN end points, Settle panicked (/repo 04e22f3)
	{"corpus-cubic-start-tangent-below-resolution", "M6.25 -10A132.70548417118474 5.308219366847389 160.99999999999997 1 1 4 2C4.00000000004 1.99999999997 2 -1 -2 6", 0.8, strokeStyle{0, 4, 4}, nil},
	{"corpus-cubic-start-tangent-below-resolution", "M-10 -5C1.00000000004 -1.00000000003 1 -1 5 5C-2 1 3 2 3 2", 0.8, strokeStyle{0, 4, 4}, nil},
	// parallel curve of a non-circular ellipse (/repo 7757b56)
	{"corpus-ellipse", "M6 0A6 2 0 0 1 -6 0A6 2 0 0 1 6 0z", 0.5, strokeStyle{1, 3, 1.2}, []hc.P2{{X: 4.6340675480038875, Y: 1.0277925781926671}}},
	{"corpus-ellipse", "M4 0A4 1 0 0 1 -4 0A4 1 0 0 1 4 0z", 1.5, strokeStyle{1, 0, 1.2}, []hc.P2{{X: 2.984331844960035, Y: 0.0528346317979059}, {X: -2.5810316941443223, Y: 0.04192796032510704}}},
}

func regionCurved(c *hc.Ctx) {
	n := c.N / 2
	for it := 0; it < n; it++ {
		var P *canvas.Path
		class := ""
		switch c.Intn(9) {
		case 8: // near-collinear control polygon with a turning point (hairpin): the parallel curve needs a
			// half circle of radius w/2 at the reversal
			l := float64(4 + c.Intn(6))
			e := []float64{0, 1e-6, 1e-3, 0.02, 0.1}[c.Intn(5)]
			P = &canvas.Path{}
			P.MoveTo(0, 0)
			P.CubeTo(l, e, -l/2, -e, l/3+float64(c.Intn(3)), e*float64(c.Intn(3)-1))
			class = "hairpin-cubic"
		case 6, 7:
			P, class = genTeardrop(c)
		case 0:
			P = canvas.Circle(float64(1+c.Intn(5))).Translate(float64(c.Intn(5)-2), float64(c.Intn(5)-2))
			class = "circle"
		case 1:
			P = canvas.Ellipse(float64(3+c.Intn(4)), float64(1+c.Intn(3)))
			class = "ellipse"
		case 2:
			P = &canvas.Path{}
			P.MoveTo(0, 0)
			P.QuadTo(float64(2+c.Intn(4)), float64(c.Intn(9)-4), float64(5+c.Intn(4)), float64(c.Intn(5)-2))
			class = "open-quad"
		case 3:
			P = &canvas.Path{}
			P.MoveTo(0, 0)
			P.CubeTo(float64(1+c.Intn(4)), float64(c.Intn(9)-4), float64(4+c.Intn(4)), float64(c.Intn(9)-4), float64(8+c.Intn(3)), float64(c.Intn(5)-2))
			class = "open-cubic"
		case 4:
			P = &canvas.Path{}
			P.MoveTo(0, 0)
			P.LineTo(float64(2+c.Intn(3)), 0)
			r := float64(1 + c.Intn(3))
			P.ArcTo(r, r, 0, false, c.Bool(), P.Pos().X+r, r)
			P.LineTo(P.Pos().X, P.Pos().Y+float64(1+c.Intn(3)))
			class = "line-arc-line"
		default:
			P = canvas.RoundedRectangle(float64(5+c.Intn(4)), float64(4+c.Intn(3)), 1)
			class = "rounded-rectangle"
		}
		w := []float64{0.25, 0.5, 1, 1.5}[c.Intn(4)]
		hw := w / 2
		st := genStyle(c, it)
		if it < 8 {
			// always present: clipping arcs joins on one-segment cubic loops (regression class of /repo ad938b1)
			P, class = genTeardrop(c)
			st = strokeStyle{c.Intn(3), 5, []float64{1.001, 1.5, 2, 4}[it%4]}
		}
		var extraProbes []hc.P2
		if k := it - 14; k >= 0 && k < len(curvedCorpus) {
			e := curvedCorpus[k]
			P, class = canvas.MustParseSVGPath(e.path), e.class
			w, hw, st, extraProbes = e.w, e.w/2, e.style, e.probes
		}
		if it >= 8 && it < 14 {
			// always present: the half width equals the radius of an arc - one offset side is an arc of radius
			// zero (regression class of /repo fbfcb63: it was scaled up to an ellipse of arbitrary size)
			r := []float64{0.5, 0.75, 1}[it%3]
			w, hw = 2*r, r
			st = strokeStyle{c.Intn(3), c.Intn(2), 4}
			if it%2 == 0 {
				P = canvas.Circle(r).Translate(float64(c.Intn(5)-2), float64(c.Intn(5)-2))
				class = "circle-radius-eq-halfwidth"
			} else {
				P = &canvas.Path{}
				P.MoveTo(0, 0)
				P.LineTo(3, 0)
				P.ArcTo(r, r, 0, false, it%4 == 1, 3+r, r)
				P.LineTo(3+r, r+3)
				class = "line-arc-line-radius-eq-halfwidth"
			}
		}
		if aborted {
			c.Count("curved:skipped-after-hang")
			continue
		}
		tol := hw / 50
		c.Evals++
		var R, Rf *canvas.Path
		msg, hung := guarded(func() {
			R = P.Stroke(w, cappers[st.cap], joiner(st.join, st.limit), tol)
			Rf = R.Flatten(tol)
		})
		if hung {
			c.Fail("hang:stroke-curved:"+class, "Stroke did not return within 20 s", map[string]any{"P": P.String(), "w": w, "style": st.name(), "tol": tol})
			continue
		}
		if msg != "" {
			first := strings.SplitN(msg, "\n", 2)[0]
			c.Fail("panic:stroke-curved:"+first, "Stroke panicked: "+first, map[string]any{"P": P.String(), "w": w, "style": st.name()})
			continue
		}
		res, ok := resultContours(Rf)
		if !ok {
			c.Fail("result-not-flat", "flattened Stroke result is not a flat well-formed path", map[string]any{"P": P.String(), "w": w})
			continue
		}
		// independent fine flattening of the input, keeping track of the real join vertices
		var pls []polyline
		var fine [][]hc.P2
		joinsAt := map[hc.P2]bool{}
		maxChordErr := 0.0
		bad := false
		for _, pi := range P.Split() {
			segs, err := hc.Decode(pi.Data())
			if err != nil {
				bad = true
				break
			}
			pl := polyline{}
			for _, s := range segs {
				switch s.Kind {
				case 'M':
					pl.pts = append(pl.pts, s.End)
				case 'Z':
					pl.closed = true
					if pl.pts[len(pl.pts)-1] != s.End {
						joinsAt[pl.pts[len(pl.pts)-1]] = true
						pl.pts = append(pl.pts, s.End)
					}
				default:
					k := 1
					if s.Kind != 'L' {
						k = 192
					}
					sm := hc.SampleSeg(s, k)
					if s.Kind != 'L' {
						// chord error of the sampling: deviation of the midpoint parameter from the chord
						for i := 0; i+1 < len(sm); i++ {
							mid := s.At((float64(i) + 0.5) / float64(k))
							maxChordErr = math.Max(maxChordErr, hc.DistPointSeg(mid, sm[i], sm[i+1]))
						}
					}
					joinsAt[s.P0] = true
					pl.pts = append(pl.pts, sm[1:]...)
				}
			}
			if pl.closed && len(pl.pts) > 1 && pl.pts[0] == pl.pts[len(pl.pts)-1] {
				pl.pts = pl.pts[:len(pl.pts)-1]
			}
			if !pl.closed {
				delete(joinsAt, pl.pts[0])
			}
			pls = append(pls, pl)
			fine = append(fine, pl.pts)
		}
		if bad || len(pls) == 0 {
			c.Count("curved:skip-undecodable")
			continue
		}
		band := tol + 2*maxChordErr + snapMargin // one tolerance: the library flattens the outline once (since d60d0c1, f749928)
		if hasBezier(P) {
			band = bezierBound*tol + 2*maxChordErr + snapMargin
		}
		lo, hi := hw-band, hw+band
		suffix := ""
		if offsetIrregular(P, hw, -hw) {
			suffix += "+swallowtail"
		}
		if segs, err := hc.Decode(P.Data()); err == nil {
			for _, s := range segs {
				if s.Kind == 'A' && math.Abs(s.Rx-s.Ry) > 1e-9 {
					suffix = "+non-circular-arc"
				}
			}
		}
		if beyondInradius(pls, hw) {
			suffix += "+beyond-inradius"
		}
		pts := probePoints(c, pls, res, hw, band, 40, st)
		pts = append(pts, joinProbes(c, pls, func(v hc.P2) bool { return joinsAt[v] }, hw, st, 9)...)
		pts = append(pts, extraProbes...)
		lim := math.Max(st.limit, 1.001)
		verdict := ""
		for _, pt := range pts {
			d := math.Inf(1)
			for _, pl := range pls {
				for _, ab := range pl.segs() {
					d = math.Min(d, hc.DistPointSeg(pt, ab[0], ab[1]))
				}
			}
			// allowances: smooth interior vertices of the fine polyline behave like round joins
			stf := st
			f := 0
			{
				guaranteed, farExempt, beyondCut := false, false, false
				for _, pl := range pls {
					sgs := pl.segs()
					for k, ab := range sgs {
						dd := ab[1].Sub(ab[0])
						u := unit(dd)
						t := pt.Sub(ab[0]).Dot(u)
						t0, t1 := 0.0, dd.Len()
						if !pl.closed && k == 0 {
							t0 = band // the cut of a butt cap is only located up to the tolerance band
						}
						if !pl.closed && k == len(sgs)-1 {
							t1 -= band
						}
						if t >= t0 && t <= t1 && math.Abs(pt.Sub(ab[0]).Cross(u)) < lo {
							guaranteed = true
						}
					}
					np := len(pl.pts)
					for i, v := range pl.pts {
						isEnd := !pl.closed && (i == 0 || i == np-1)
						switch {
						case isEnd:
							var u hc.P2
							if i == 0 {
								u = unit(pl.pts[0].Sub(pl.pts[1]))
							} else {
								u = unit(pl.pts[np-1].Sub(pl.pts[np-2]))
							}
							al := pt.Sub(v).Dot(u)
							if stf.cap != 0 && pt.Dist(v) < lo && al >= 0 {
								guaranteed = true
							}
							if stf.cap == 0 && al >= -band && pt.Dist(v) <= hw+band {
								beyondCut = true
							}
							if stf.cap == 2 {
								if al >= -band && al <= hw+band && math.Abs(pt.Sub(v).Cross(u)) <= hw+band {
									farExempt = true
								}
							}
						case joinsAt[v]:
							a, b := pl.pts[(i+np-1)%np], pl.pts[(i+1)%np]
							if joinFilled(pt, a, v, b, stf, hw, lo, band, false) {
								guaranteed = true
							}
							if stf.join >= 2 && (pt.Dist(v) <= lim*hw+band || clipCut(pt, a, v, b, stf, hw, band)) {
								farExempt = true
							}
						default:
							// smooth vertex of the fine polyline: only its wedge (beyond the end of the
							// previous chord and before the start of the next one) - the discs of points
							// next to a cut or a join must not reach over the cut / into the join's wedge
							if pt.Dist(v) < lo && (pl.closed || (i > 0 && i < np-1)) {
								a, b := pl.pts[(i+np-1)%np], pl.pts[(i+1)%np]
								if pt.Sub(v).Dot(v.Sub(a)) >= 0 && pt.Sub(v).Dot(b.Sub(v)) <= 0 {
									guaranteed = true
								}
							}
						}
					}
				}
				if !guaranteed || beyondCut {
					f |= 1
				}
				if farExempt {
					f |= 2
				}
			}
			filled := hc.WnFloat(pt, res) != 0
			if f&1 == 0 && d < lo && !filled {
				verdict = fmt.Sprintf("hole: point (%v,%v) at distance %.6g < w/2 - tol = %.6g is not filled", pt.X, pt.Y, d, lo)
				cls := "hole"
				if d >= lo-canvas.Tolerance {
					cls += "-within-global-Tolerance"
				}
				if strings.Contains(class, "cubic") || strings.Contains(class, "quad") {
					// where: next to a join vertex, or along the (offset) curve
					tag := "@curve"
					for _, pl := range pls {
						for _, v := range pl.pts {
							if joinsAt[v] && pt.Dist(v) <= d+1e-9 {
								tag = "@join"
							}
						}
					}
					cls += tag
				}
				c.Fail(fmt.Sprintf("stroke-curved:%s:%s:%s%s", st.name(), class, cls, suffix), verdict, map[string]any{"P": P.String(), "w": w, "style": st.name(), "limit": st.limit, "tol": tol, "point": []float64{pt.X, pt.Y}, "R": R.String()})
				break
			}
			if f&2 == 0 && d > hi && filled {
				verdict = fmt.Sprintf("spurious: point (%v,%v) at distance %.6g > w/2 + tol = %.6g is filled", pt.X, pt.Y, d, hi)
				cls := "spurious"
				if d <= hi+canvas.Tolerance {
					cls += "-within-global-Tolerance"
				} else if st.join == 3 || st.join == 5 {
					// the clipped miter / arcs join of the library ends at sqrt(1+limit^2)*w/2 (known finding)
					for _, pl := range pls {
						for _, v := range pl.pts {
							if joinsAt[v] && pt.Dist(v) <= math.Sqrt(1+lim*lim)*hw+band {
								cls = "spurious-beyond-miter-limit"
							}
						}
					}
				}
				if strings.HasPrefix(cls, "spurious") && !strings.Contains(cls, "beyond-miter") && (strings.Contains(class, "cubic") || strings.Contains(class, "quad")) {
					tag := "@curve"
					for _, pl := range pls {
						for _, v := range pl.pts {
							if joinsAt[v] && pt.Dist(v) <= d+1e-9 {
								tag = "@join"
							}
						}
					}
					cls += tag
				}
				c.Fail(fmt.Sprintf("stroke-curved:%s:%s:%s%s", st.name(), class, cls, suffix), verdict, map[string]any{"P": P.String(), "w": w, "style": st.name(), "limit": st.limit, "tol": tol, "point": []float64{pt.X, pt.Y}, "R": R.String()})
				break
			}
			c.Evals++
		}
		c.Count("curved:input:" + class)
		c.Count("curved:style:" + st.name())
		c.Distinct("curved" + P.String() + st.name() + fmt.Sprint(w))
		if it == 0 {
			c.Sample(fmt.Sprintf("Stroke(%v, %s) of %q -> %q", w, st.name(), P.String(), R.String()))
		}
	}
}

// ---------------------------------------------------------------------------------------------
// 7. Offset(d) of closed curved contours (one-segment cubic loops, circles): Go-side oracle

func finePolygon(P *canvas.Path) ([]hc.P2, float64, bool) {
	segs, err := hc.Decode(P.Data())
	if err != nil {
		return nil, 0, false
	}
	var v []hc.P2
	maxErr := 0.0
	for _, s := range segs {
		switch s.Kind {
		case 'M':
			v = append(v, s.End)
		case 'L', 'Z':
			if v[len(v)-1] != s.End {
				v = append(v, s.End)
			}
		default:
			const k = 256
			sm := hc.SampleSeg(s, k)
			for i := 0; i+1 < len(sm); i++ {
				mid := s.At((float64(i) + 0.5) / k)
				maxErr = math.Max(maxErr, hc.DistPointSeg(mid, sm[i], sm[i+1]))
			}
			v = append(v, sm[1:]...)
		}
	}
	if len(v) > 1 && v[0] == v[len(v)-1] {
		v = v[:len(v)-1]
	}
	return v, maxErr, len(v) >= 3
}

func offsetCurved(c *hc.Ctx) {
	n := c.N / 3
	for it := 0; it < n; it++ {
		var P *canvas.Path
		class := ""
		if c.Chance(0.8) {
			P, class = genTeardrop(c)
		} else {
			P = canvas.Circle(float64(2 + c.Intn(4)))
			class = "circle"
			if c.Bool() {
				P = P.Reverse()
				class = "circle-cw"
			}
		}
		v, chordErr, ok := finePolygon(P)
		if !ok || !isSimpleCoarse(v) {
			c.Count("offset-curved:skip-not-simple")
			continue
		}
		d := []float64{0.25, 0.5, 1, 1.5}[c.Intn(4)]
		if c.Bool() {
			d = -d
		}
		if it < 6 {
			// always present: |d| equals the radius of the circle (inner offset arc of radius zero, /repo fbfcb63)
			r := float64(1 + it%2)
			P = canvas.Circle(r)
			class = "circle-radius-eq-distance"
			if it%4 >= 2 {
				P = P.Reverse()
				class = "circle-cw-radius-eq-distance"
			}
			v, chordErr, ok = finePolygon(P)
			d = r
			if it >= 3 {
				d = -r
			}
		}
		if aborted {
			c.Count("offset-curved:skipped-after-hang")
			continue
		}
		ad := math.Abs(d)
		ccw := hc.Area(v) > 0
		grow := (d > 0) == ccw
		tol := ad / 50
		c.Evals++
		var R, Rf *canvas.Path
		msg, hung := guarded(func() {
			R = P.Offset(d, tol)
			Rf = R.Flatten(tol)
		})
		if hung {
			c.Fail("hang:offset-curved:"+class, "Offset did not return within 20 s", map[string]any{"P": P.String(), "d": d, "tol": tol})
			continue
		}
		if msg != "" {
			first := strings.SplitN(msg, "\n", 2)[0]
			c.Fail("panic:offset-curved:"+first, "Offset panicked: "+first, map[string]any{"P": P.String(), "d": d})
			continue
		}
		res, ok := resultContours(Rf)
		if !ok {
			c.Fail("result-not-flat", "flattened Offset result is not a flat well-formed path", map[string]any{"P": P.String(), "d": d})
			continue
		}
		pls := []polyline{{pts: v, closed: true}}
		band := tol + 2*chordErr + snapMargin // one tolerance: the library flattens the outline once (since d60d0c1, f749928)
		if hasBezier(P) {
			band = bezierBound*tol + 2*chordErr + snapMargin
		}
		lo, hi := ad-band, ad+band
		start := hc.P2{X: P.Data()[1], Y: P.Data()[2]}
		pts := probePoints(c, pls, res, ad, band, 36, strokeStyle{1, 1, 4})
		pts = append(pts, joinProbes(c, pls, func(q hc.P2) bool { return q == start }, ad, strokeStyle{1, 1, 4}, 12)...)
		gs := "shrink"
		if grow {
			gs = "grow"
		}
		suffix := ""
		if offsetIrregular(P, d) {
			suffix += "+swallowtail"
		}
		if !grow && ad > 0.9*inradiusEstimate(v) {
			suffix += "+beyond-inradius"
		}
		cs := [][]hc.P2{v}
		for _, pt := range pts {
			dist := hc.DistToContours(pt, cs)
			inside := hc.WnFloat(pt, cs) != 0
			filled := hc.WnFloat(pt, res) != 0
			var expect, decided bool
			if grow {
				if inside && dist > band || dist < lo {
					expect, decided = true, true
				} else if !inside && dist > hi {
					expect, decided = false, true
				}
			} else {
				if inside && dist > hi {
					expect, decided = true, true
				} else if !inside && dist > band || dist < lo {
					expect, decided = false, true
				}
			}
			if !decided {
				c.Count("offset-curved:point-in-band")
				continue
			}
			c.Evals++
			if expect != filled {
				cls := "offset-hole"
				if filled {
					cls = "offset-spurious"
				}
				margin := math.Min(math.Abs(dist-lo), math.Abs(dist-hi))
				if margin <= canvas.Tolerance && !(inside && grow) && !(!inside && !grow) {
					cls += "-within-global-Tolerance"
				}
				// where: at the join vertex (the nearest point of the contour is the vertex itself) or
				// along the curve
				if pt.Dist(start) <= dist+1e-9 {
					cls += "@join"
				} else {
					cls += "@curve"
				}
				c.Fail(fmt.Sprintf("offset-curved:%s:%s:%s%s", gs, class, cls, suffix),
					fmt.Sprintf("Offset(%v): point (%v,%v) inside=%v at distance %.6g from the contour: expected filled=%v", d, pt.X, pt.Y, inside, dist, expect),
					map[string]any{"P": P.String(), "d": d, "tol": tol, "point": []float64{pt.X, pt.Y}, "R": R.String()})
				break
			}
		}
		c.Count("offset-curved:" + class + ":" + gs + suffix)
		c.Distinct("offset-curved" + P.String() + fmt.Sprint(d))
	}
}

// isSimpleCoarse: the fine polygon does not cross itself (checked on every 8th vertex)
func isSimpleCoarse(v []hc.P2) bool {
	var w []hc.P2
	for i := 0; i < len(v); i += 8 {
		w = append(w, v[i])
	}
	return isSimple(w)
}
