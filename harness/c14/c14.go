// C14 — rasterization paints exactly the pixels inside.
//
//  1. arithmetic correspondence ('=' exact) of the hand-written Lean model with the real code:
//     toI26_6 / fromI26_6 / toP26_6 / fromP26_6 / fixedPoint26_6 (hooks), image size of
//     rasterizer.New, the point handed to the scan converter by Path.ToScanxScanner inside a real
//     Rasterizer (y flip; hook VerifScanExtent), and the slice-aliasing model of
//     Linear/RadialGradient.SetColorSpace.
//  2. pixel refinement: generated canvases (flat polygons, fills and strokes, several draws) are
//     rasterized by the real rasterizer; every pixel is classified (untouched / exactly paint k /
//     other) and the exact Lean winding-number specification decides which draw must own every
//     pixel whose centre is more than 1 px from every edge ('!' verdict lines).
//  3. gradient oracle (independent evaluation in millimetres).
//  4. render twice -> identical bytes; deep comparison of the canvas before/after.
package main

import (
	"bytes"
	"fmt"
	"image"
	"image/color"
	"math"
	"os"
	"path/filepath"
	"sort"
	"strings"

	"github.com/tdewolff/canvas"
	"github.com/tdewolff/canvas/renderers/rasterizer"
	"verifharness/hc"
)

func main() { hc.Main("C14", run) }

// ---- own affine arithmetic (independent of canvas.Matrix) ----

type aff struct{ a, b, c, d, e, f float64 } // x' = a x + b y + e ; y' = c x + d y + f

var ident = aff{1, 0, 0, 1, 0, 0}

func (m aff) mul(n aff) aff { // m ∘ n
	return aff{m.a*n.a + m.b*n.c, m.a*n.b + m.b*n.d, m.c*n.a + m.d*n.c, m.c*n.b + m.d*n.d,
		m.a*n.e + m.b*n.f + m.e, m.c*n.e + m.d*n.f + m.f}
}
func (m aff) dot(p hc.P2) hc.P2 { return hc.P2{X: m.a*p.X + m.b*p.Y + m.e, Y: m.c*p.X + m.d*p.Y + m.f} }
func translate(x, y float64) aff { return aff{1, 0, 0, 1, x, y} }
func scale(x, y float64) aff     { return aff{x, 0, 0, y, 0, 0} }
func rotate(deg float64) aff {
	s, co := math.Sincos(deg * math.Pi / 180)
	switch math.Mod(math.Mod(deg, 360)+360, 360) {
	case 0:
		s, co = 0, 1
	case 90:
		s, co = 1, 0
	case 180:
		s, co = 0, -1
	case 270:
		s, co = -1, 0
	}
	return aff{co, -s, s, co, 0, 0}
}
func shear(x, y float64) aff { return aff{1, x, y, 1, 0, 0} }

// documented meaning of the four coordinate systems on a W x H canvas
func csv(cs canvas.CoordSystem, W, H float64) aff {
	switch cs {
	case canvas.CartesianII:
		return aff{-1, 0, 0, 1, W, 0}
	case canvas.CartesianIII:
		return aff{-1, 0, 0, -1, W, H}
	case canvas.CartesianIV:
		return aff{1, 0, 0, -1, 0, H}
	}
	return ident
}

func mapContours(m aff, cs [][]hc.P2) [][]hc.P2 {
	out := make([][]hc.P2, len(cs))
	for i, c := range cs {
		out[i] = make([]hc.P2, len(c))
		for j, p := range c {
			out[i][j] = m.dot(p)
		}
	}
	return out
}

// ---- colours ----

var levels = []uint8{0, 64, 128, 192, 255}

func (g *gen) colour(used map[color.RGBA]bool) color.RGBA {
	for {
		col := color.RGBA{levels[g.c.Intn(5)], levels[g.c.Intn(5)], levels[g.c.Intn(5)], 255}
		if !used[col] {
			used[col] = true
			return col
		}
	}
}

func absDiff(a, b uint8) int {
	if a > b {
		return int(a - b)
	}
	return int(b - a)
}

func near(a, b color.RGBA, tol int) bool {
	return absDiff(a.R, b.R) <= tol && absDiff(a.G, b.G) <= tol && absDiff(a.B, b.B) <= tol && absDiff(a.A, b.A) <= tol
}

type gen struct{ c *hc.Ctx }

func run(c *hc.Ctx) {
	g := &gen{c}
	want := func(s string) bool { return c.Only == "" || c.Only == s }
	if want("fix") {
		g.fixedPoint()
	}
	if want("size") {
		g.sizes()
	}
	if want("scan") {
		g.scan()
	}
	if want("scs") {
		g.aliasing()
	}
	if want("pix") {
		g.pixels()
	}
	if want("grad") {
		g.gradients()
	}
	if want("gradlookup") {
		g.gradLookup()
	}
	if want("hist") {
		g.histories()
	}
	if want("pipe") {
		g.pipeline()
	}
	if want("comp") {
		g.compositing()
	}
	if want("tables") {
		g.colourTables()
	}
}

// ---- 1a. fixed point ----

func (g *gen) fixVal() float64 {
	c := g.c
	switch c.Intn(9) {
	case 0:
		return float64(c.Intn(2001) - 1000)
	case 1:
		return float64(c.Intn(8001)-4000) / 4
	case 2:
		return float64(c.Intn(200001)-100000) / 64 // exactly representable in 26.6
	case 3: // next to a 1/64 step
		v := float64(c.Intn(20001)-10000) / 64
		return math.Nextafter(v, v+float64(c.Intn(3)-1))
	case 4: // next to a half step (rounding boundary of fixedPoint26_6)
		v := float64(c.Intn(40001)-20000)/128 + 0
		return math.Nextafter(v, v+float64(c.Intn(3)-1))
	case 5:
		return c.Norm() * math.Pow(10, -6*c.Float())
	case 6:
		return c.Range(-1, 1) * float64(int(1)<<uint(c.Intn(24)))
	case 7:
		return -c.Float() / 64 * 1.5
	}
	return c.Range(-500, 500)
}

func (g *gen) fixedPoint() {
	c := g.c
	toI := canvas.VerifToI26_6
	for it := 0; it < c.N*2; it++ {
		x, y := g.fixVal(), g.fixVal()
		i := toI(x)
		c.Case("FIX toI "+hc.H(x), "=", fmt.Sprint(i))
		c.Case("FIX fromI "+fmt.Sprint(i), "=", hc.H(canvas.VerifFromI26_6(i)))
		px, py := canvas.VerifToP26_6(x, y)
		c.Case("FIX toP "+hc.Hs(x, y), "=", fmt.Sprintf("%d %d", px, py))
		fx, fy := canvas.VerifFromP26_6(px, py)
		c.Case(fmt.Sprintf("FIX fromP %d %d", px, py), "=", hc.Hs(fx, fy))
		a, _ := canvas.VerifFixedPoint26_6(x, y)
		c.Case("FIX fixed "+hc.H(x), "=", fmt.Sprint(a))
		// oracle (the property's predicate on the real code): round trip within 1/64, truncation toward zero
		c.Evals++
		back := canvas.VerifFromI26_6(i)
		if d := math.Abs(back - x); d > 1.0/64 || math.Abs(back) > math.Abs(x) {
			c.Fail("fixed-point-roundtrip", fmt.Sprintf("fromI26_6(toI26_6(%v)) = %v", x, back), map[string]any{"x": x})
		}
		if d := float64(a)/64 - x; d > 1.0/128+1e-12 || d < -1.0/128-1e-12 {
			if x >= 0 {
				c.Fail("fixed-point-rounding", fmt.Sprintf("fixedPoint26_6(%v) = %d/64, off by %v", x, a, d), map[string]any{"x": x})
			}
		}
		switch {
		case x < 0:
			c.Count("fix negative")
		case x*64 == math.Floor(x*64):
			c.Count("fix exact 1/64 multiple")
		default:
			c.Count("fix generic")
		}
		c.Distinct("fix" + hc.H(x))
	}
}

// ---- 1b. image size ----

var resolutions = []float64{1, 2, 4.5}

// resolutions below 1 px/mm: millimetres and pixels must not be confused in either direction
var lowResolutions = []float64{0.5, 0.25, 0.8, float64(canvas.DPI(20)), float64(canvas.DPI(10))}

func (g *gen) res() float64 {
	c := g.c
	switch c.Intn(10) {
	case 0:
		return float64(canvas.DPI(96))
	case 1:
		return c.Range(0.5, 6)
	case 2, 3, 4:
		return lowResolutions[c.Intn(len(lowResolutions))]
	case 5:
		return c.Range(0.1, 1)
	}
	return resolutions[c.Intn(3)]
}

func (g *gen) sizes() {
	c := g.c
	for it := 0; it < c.N*4; it++ {
		dpmm := g.res()
		var w, h float64
		switch c.Intn(4) {
		case 0:
			w, h = float64(1+c.Intn(60)), float64(1+c.Intn(60))
		case 1:
			w, h = float64(2+c.Intn(240))/4, float64(2+c.Intn(240))/4
		case 2: // exactly at the rounding boundary k + 1/2 pixels
			w, h = (float64(1+c.Intn(60))+0.5)/dpmm, (float64(1+c.Intn(60))+0.5)/dpmm
		default:
			w, h = c.Range(0.6, 60), c.Range(0.6, 60)
		}
		if dpmm < 1 { // larger canvases at low resolution
			w, h = w/dpmm, h/dpmm
		}
		if w*dpmm < 0.5 || h*dpmm < 0.5 {
			continue
		}
		var b image.Rectangle
		msg := hc.Try(func() { b = rasterizer.New(w, h, canvas.DPMM(dpmm), nil).Bounds() })
		if msg != "" {
			c.Fail("panic:rasterizer.New", msg, map[string]any{"w": w, "h": h, "dpmm": dpmm})
			continue
		}
		c.Case("SIZE "+hc.Hs(w, h, dpmm), "=", fmt.Sprintf("%d %d", b.Dx(), b.Dy()))
		// oracle: width x height x resolution pixels (nearest integer)
		c.Evals++
		if math.Abs(float64(b.Dx())-w*dpmm) > 0.5+1e-9 || math.Abs(float64(b.Dy())-h*dpmm) > 0.5+1e-9 || b.Min != (image.Point{}) {
			c.Fail("image-size", fmt.Sprintf("New(%v,%v,%v) has bounds %v", w, h, dpmm, b), map[string]any{"w": w, "h": h, "dpmm": dpmm})
		}
		if dpmm < 1 {
			c.Count("size dpmm<1")
		} else {
			c.Count(fmt.Sprintf("size dpmm=%.3g", math.Round(dpmm*2)/2))
		}
		c.Distinct("size" + hc.Hs(w, h, dpmm))
	}
}

// ---- 1c. y flip through the real scanner feed ----

func (g *gen) scan() {
	c := g.c
	for it := 0; it < c.N/4+1; it++ {
		dpmm := g.res()
		W, H := float64(4+c.Intn(30)), float64(4+c.Intn(30))
		if dpmm < 1 {
			W, H = math.Round(W/dpmm), math.Round(H/dpmm)
			c.Count("scan canvas dpmm<1")
		}
		if c.Chance(0.3) {
			W, H = W+0.25*float64(c.Intn(4)), H+0.25*float64(c.Intn(4))
		}
		r := rasterizer.New(W, H, canvas.DPMM(dpmm), nil)
		hpx := r.Bounds().Dy()
		for k := 0; k < 12; k++ {
			var x, y float64
			switch c.Intn(4) {
			case 0:
				x, y = float64(c.Intn(int(W)+1)), float64(c.Intn(int(H)+1))
			case 1:
				x, y = float64(c.Intn(int(4*W)+1))/4, float64(c.Intn(int(4*H)+1))/4
			case 2:
				x, y = c.Range(-5, W+5), c.Range(-5, H+5)
			default:
				x, y = c.Range(0, W), c.Range(0, H)
			}
			p := &canvas.Path{}
			p.MoveTo(x, y)
			x0, y0, x1, y1 := r.VerifScanExtent(p)
			if x0 != x1 || y0 != y1 {
				c.Fail("scan-extent", "single point path gives a non-degenerate extent", map[string]any{"x": x, "y": y})
				continue
			}
			c.Case(fmt.Sprintf("SCAN %d %s", hpx, hc.Hs(dpmm, x, y)), "=", fmt.Sprintf("%d %d", x0, y0))
			// oracle: pixel row r shows canvas y = (hpx - r)/dpmm, column c shows x = c/dpmm
			c.Evals++
			row, col := float64(y0)/64, float64(x0)/64
			// (rounding to the 1/64 pixel grid: nearest on the image, up to 3/128 px left of / above it)
			tolc, tolr := 1.0/128+1e-9, 1.0/128+1e-9
			if x*dpmm < 0 {
				tolc = 3.0/128 + 1e-9
			}
			if float64(hpx)-y*dpmm < 0 {
				tolr = 3.0/128 + 1e-9
			}
			if math.Abs((float64(hpx)-row)-y*dpmm) > tolr || math.Abs(col-x*dpmm) > tolc {
				c.Fail("yflip", fmt.Sprintf("canvas (%v,%v) at %v px/mm on a %d px high image is fed to the scanner as (%v,%v)", x, y, dpmm, hpx, col, row),
					map[string]any{"x": x, "y": y, "dpmm": dpmm, "hpx": hpx})
			}
			c.Count("scan point")
			c.Distinct("scan" + hc.Hs(dpmm, x, y))
		}
	}
}

// ---- 1d. slice aliasing of SetColorSpace ----

func colNat(col color.RGBA) uint32 {
	return uint32(col.R)<<24 | uint32(col.G)<<16 | uint32(col.B)<<8 | uint32(col.A)
}

func (g *gen) aliasing() {
	c := g.c
	spaces := []canvas.ColorSpace{canvas.LinearColorSpace{}, canvas.SRGBColorSpace{}, canvas.GammaColorSpace{Gamma: 2.2}}
	for it := 0; it < c.N; it++ {
		total := 1 + c.Intn(7)
		off := c.Intn(total)
		cp := c.Intn(total - off + 1)
		ln := 0
		if cp > 0 {
			ln = c.Intn(cp + 1)
		}
		backing := make(canvas.Stops, total)
		for i := range backing {
			backing[i] = canvas.Stop{Offset: float64(i) / float64(total), Color: color.RGBA{uint8(c.Intn(256)), uint8(c.Intn(256)), uint8(c.Intn(256)), 255}}
		}
		stops := backing[off : off+ln : off+cp]
		csi := c.Intn(3)
		cs := spaces[csi]
		var toks, mp []string
		for _, s := range backing {
			toks = append(toks, fmt.Sprint(colNat(s.Color)))
		}
		for _, s := range stops {
			mp = append(mp, fmt.Sprint(colNat(cs.ToLinear(s.Color))))
		}
		radial := c.Bool()
		var ret canvas.Gradient
		if radial {
			gr := canvas.NewRadialGradient(canvas.Point{}, 0, canvas.Point{}, 5)
			gr.Stops = stops
			ret = gr.SetColorSpace(cs)
		} else {
			gl := canvas.NewLinearGradient(canvas.Point{}, canvas.Point{X: 10})
			gl.Stops = stops
			ret = gl.SetColorSpace(cs)
		}
		var after, rs []string
		for _, s := range backing {
			after = append(after, fmt.Sprint(colNat(s.Color)))
		}
		var retStops canvas.Stops
		switch r := ret.(type) {
		case *canvas.LinearGradient:
			retStops = r.Stops
		case *canvas.RadialGradient:
			retStops = r.Stops
		}
		for _, s := range retStops {
			rs = append(rs, fmt.Sprint(colNat(s.Color)))
		}
		line := fmt.Sprintf("SCS %s %d %d %d %d %s MAP %s", hc.B(csi == 0), total, off, ln, cp, strings.Join(toks, " "), strings.Join(mp, " "))
		c.Case(strings.TrimSpace(line), "=", strings.TrimSpace(strings.Join(after, " ")+" | "+strings.Join(rs, " ")))
		// oracle: the caller's stops are unchanged
		c.Evals++
		if strings.Join(after, " ") != strings.Join(toks, " ") {
			c.Fail("impure:SetColorSpace-mutates-stops", fmt.Sprintf("SetColorSpace(%T) rewrote the receiver's stops %v -> %v", cs, toks, after),
				map[string]any{"stops": toks, "colorspace": fmt.Sprintf("%T", cs), "radial": radial})
		}
		c.Count(fmt.Sprintf("scs space=%d radial=%v", csi, radial))
		c.Distinct("scs" + line)
	}
}

// ---- 1e. SetColorSpace over call histories: each result is the pure function of the receiver's value ----

type gradObj struct {
	lin *canvas.LinearGradient
	rad *canvas.RadialGradient
}

func (o gradObj) g() canvas.Gradient {
	if o.lin != nil {
		return o.lin
	}
	return o.rad
}
func (o gradObj) stops() *canvas.Stops {
	if o.lin != nil {
		return &o.lin.Stops
	}
	return &o.rad.Stops
}
func (o gradObj) geom() []float64 {
	if o.lin != nil {
		return []float64{o.lin.Start.X, o.lin.Start.Y, o.lin.End.X, o.lin.End.Y}
	}
	return []float64{o.rad.C0.X, o.rad.C0.Y, o.rad.R0, o.rad.C1.X, o.rad.C1.Y, o.rad.R1}
}
func wrapGrad(gr canvas.Gradient) gradObj {
	switch v := gr.(type) {
	case *canvas.LinearGradient:
		return gradObj{lin: v}
	case *canvas.RadialGradient:
		return gradObj{rad: v}
	}
	return gradObj{}
}

func valueTokens(geom []float64, st canvas.Stops) string {
	var sb strings.Builder
	sb.WriteString(hc.Hs(geom...))
	sb.WriteString(" |")
	for _, x := range st {
		fmt.Fprintf(&sb, " %s %d", hc.H(x.Offset), colNat(x.Color))
	}
	return strings.TrimSpace(sb.String())
}

func (g *gen) histories() {
	c := g.c
	spaces := []canvas.ColorSpace{canvas.LinearColorSpace{}, canvas.SRGBColorSpace{}, canvas.GammaColorSpace{Gamma: 2.2}, canvas.GammaColorSpace{Gamma: 1.8}}
	rcol := func() color.RGBA { return color.RGBA{uint8(c.Intn(256)), uint8(c.Intn(256)), uint8(c.Intn(256)), 255} }
	n := c.N / 6
	if n < 10 {
		n = 10
	}
	for it := 0; it < n; it++ {
		var objs []gradObj
		if c.Chance(0.7) {
			lg := canvas.NewLinearGradient(canvas.Point{X: float64(c.Intn(5)), Y: float64(c.Intn(5))}, canvas.Point{X: float64(6 + c.Intn(20)), Y: float64(c.Intn(10))})
			objs = append(objs, gradObj{lin: lg})
		} else {
			rg := canvas.NewRadialGradient(canvas.Point{X: float64(c.Intn(9)), Y: float64(c.Intn(9))}, float64(c.Intn(3)), canvas.Point{X: float64(c.Intn(9)), Y: float64(c.Intn(9))}, float64(4+c.Intn(9)))
			objs = append(objs, gradObj{rad: rg})
		}
		ns := 2 + c.Intn(3)
		for k := 0; k < ns; k++ {
			*objs[0].stops() = append(*objs[0].stops(), canvas.Stop{Offset: float64(k) / float64(ns-1), Color: rcol()})
		}
		var hist []string
		steps := 4 + c.Intn(8)
		for step := 0; step < steps; step++ {
			o := objs[c.Intn(len(objs))]
			st := o.stops()
			// a mutation (or none) between two calls
			switch c.Intn(7) {
			case 0:
				if len(*st) > 0 {
					i := c.Intn(len(*st))
					(*st)[i].Color = rcol()
					hist = append(hist, fmt.Sprintf("Stops[%d].Color=", i))
				}
			case 1: // Add on an existing offset replaces the colour
				if len(*st) > 0 {
					i := c.Intn(len(*st))
					st.Add((*st)[i].Offset, rcol())
					hist = append(hist, fmt.Sprintf("Add(existing offset %d)", i))
				}
			case 2:
				st.Add(c.Float(), rcol())
				hist = append(hist, "Add(new offset)")
			case 3:
				if len(*st) > 2 {
					i := 1 + c.Intn(len(*st)-2)
					(*st)[i].Offset = ((*st)[i-1].Offset + (*st)[i+1].Offset) / 2
					hist = append(hist, fmt.Sprintf("Stops[%d].Offset=", i))
				}
			case 4: // a SetView copy becomes a further object of the history
				m := canvas.Identity.Translate(float64(1+c.Intn(9)), float64(1+c.Intn(9))).Scale(0.5*float64(1+c.Intn(4)), 0.5*float64(1+c.Intn(4)))
				objs = append(objs, wrapGrad(o.g().SetView(m)))
				o = objs[len(objs)-1]
				st = o.stops()
				hist = append(hist, "SetView copy")
			}
			// the call
			csi := c.Intn(len(spaces))
			cs := spaces[csi]
			geomBefore := o.geom()
			stBefore := append(canvas.Stops{}, (*st)...)
			var mp []string
			for _, x := range stBefore {
				mp = append(mp, fmt.Sprint(colNat(cs.ToLinear(x.Color))))
			}
			res := wrapGrad(o.g().SetColorSpace(cs))
			hist = append(hist, fmt.Sprintf("SetColorSpace(%T%v)", cs, cs))
			in := valueTokens(geomBefore, stBefore)
			parts := strings.SplitN(in, " |", 2)
			line := fmt.Sprintf("SCSH %s %d %s %d%s MAP %s", hc.B(csi == 0), len(geomBefore), parts[0], len(stBefore), parts[1], strings.Join(mp, " "))
			c.Case(strings.TrimSpace(line), "=", valueTokens(res.geom(), *res.stops()))
			// oracles: the receiver keeps its value; the result is the conversion of the receiver's CURRENT value
			c.Evals++
			if valueTokens(o.geom(), *st) != in {
				c.Fail("impure:SetColorSpace-mutates-stops", "SetColorSpace changed its receiver: "+in+" -> "+valueTokens(o.geom(), *st), map[string]any{"history": hist})
			}
			want := append(canvas.Stops{}, stBefore...)
			for i := range want {
				want[i].Color = cs.ToLinear(want[i].Color)
			}
			if got, exp := valueTokens(res.geom(), *res.stops()), valueTokens(geomBefore, want); got != exp {
				c.Fail("SetColorSpace-depends-on-history", fmt.Sprintf("after the history %v the result is %s, but the receiver's value %s converts to %s", hist, got, in, exp), map[string]any{"history": hist, "receiver": in, "result": got, "expected": exp})
			}
			c.Count(fmt.Sprintf("history call space=%d step=%d", csi, min(step, 6)))
			c.Distinct("hist" + line + fmt.Sprint(step, it))
		}
	}
}

// ---- 1f. the whole canvas -> scanner pipeline, coordinate systems, compositing, colour tables ----

func (g *gen) randAff(W, H float64) aff {
	c := g.c
	m := ident
	for k := 0; k < 1+c.Intn(3); k++ {
		switch c.Intn(6) {
		case 0:
			m = m.mul(translate(float64(c.Intn(int(W)+1))*0.5, float64(c.Intn(int(H)+1))*0.5))
		case 1:
			m = m.mul(scale(0.25*float64(1+c.Intn(8)), 0.25*float64(1+c.Intn(8))))
		case 2:
			m = m.mul(rotate(float64(90 * c.Intn(4))))
		case 3:
			m = m.mul(rotate(c.Range(0, 360)))
		case 4:
			m = m.mul(scale(-1, 1))
		default:
			m = m.mul(shear(0.25*float64(c.Intn(5)-2), 0))
		}
	}
	return m
}

func (m aff) canvas() canvas.Matrix { return canvas.Matrix{{m.a, m.b, m.e}, {m.c, m.d, m.f}} }
func (m aff) hex() string           { return hc.Hs(m.a, m.b, m.e, m.c, m.d, m.f) }

func (g *gen) pipeline() {
	c := g.c
	for it := 0; it < c.N/2; it++ {
		dpmm := g.res()
		W, H := float64(8+c.Intn(40)), float64(8+c.Intn(30))
		if dpmm < 1 {
			W, H = math.Round(W/dpmm), math.Round(H/dpmm)
		}
		var r *rasterizer.Rasterizer
		if msg := hc.Try(func() { r = rasterizer.New(W, H, canvas.DPMM(dpmm), nil) }); msg != "" {
			continue
		}
		hpx := r.Bounds().Dy()
		m := g.randAff(W, H)
		view := ident
		if c.Chance(0.5) {
			view = g.randAff(W, H)
		}
		x, y := float64(c.Intn(int(W)+1)), float64(c.Intn(int(H)+1))
		switch c.Intn(3) {
		case 0:
			x, y = x/4, y/4
		case 1:
			x, y = c.Range(-W/4, W), c.Range(-H/4, H)
		}
		cv := canvas.New(W, H)
		p := &canvas.Path{}
		p.MoveTo(x, y)
		cv.RenderPath(p, canvas.Style{Fill: canvas.Paint{Color: canvas.Red}}, m.canvas())
		var x0, y0, x1, y1 int32
		if msg := hc.Try(func() {
			cv.RenderViewTo(r, view.canvas())
			x0, y0, x1, y1 = r.VerifLastExtent()
		}); msg != "" {
			c.Fail("panic:RenderViewTo:"+strings.SplitN(msg, "\n", 2)[0], msg, map[string]any{"m": m, "view": view, "x": x, "y": y})
			continue
		}
		if x0 != x1 || y0 != y1 {
			c.Count("pipeline: scanner saw no single point")
			continue
		}
		if math.Abs(float64(x0)) > 1e8 || math.Abs(float64(y0)) > 1e8 {
			c.Count("pipeline: out of 26.6 range")
			continue
		}
		c.Case(fmt.Sprintf("PIPE %d %s %s %s %s", hpx, hc.H(dpmm), view.hex(), m.hex(), hc.Hs(x, y)), "=", fmt.Sprintf("%d %d", x0, y0))
		// oracle: the layer point goes to the pixel position of view·m·p (own arithmetic), y up
		c.Evals++
		q := view.mul(m).dot(hc.P2{X: x, Y: y})
		ex, ey := q.X*dpmm, float64(hpx)-q.Y*dpmm
		tol := 3.0/128 + 1e-6*(1+math.Abs(ex)+math.Abs(ey))
		if math.Abs(float64(x0)/64-ex) > tol || math.Abs(float64(y0)/64-ey) > tol {
			c.Fail("pipeline-position", fmt.Sprintf("layer point (%v,%v) with m=%v through view=%v at %v px/mm reaches the scanner at (%v,%v) px, expected (%v,%v)", x, y, m, view, dpmm, float64(x0)/64, float64(y0)/64, ex, ey),
				map[string]any{"m": m, "view": view, "x": x, "y": y, "dpmm": dpmm, "W": W, "H": H})
		}
		if dpmm < 1 {
			c.Count("pipeline dpmm<1")
		} else {
			c.Count("pipeline dpmm>=1")
		}
		c.Distinct("pipe" + m.hex() + view.hex() + hc.Hs(x, y, dpmm))
	}
	// Context.CoordSystemView
	for it := 0; it < c.N/4; it++ {
		W, H := float64(1+c.Intn(200)), float64(1+c.Intn(200))
		switch c.Intn(3) {
		case 0:
			W, H = W/4, H/4
		case 1:
			W, H = c.Range(0.5, 300), c.Range(0.5, 300)
		}
		cs := c.Intn(4)
		ctx := canvas.NewContext(canvas.New(W, H))
		ctx.SetCoordSystem(canvas.CoordSystem(cs))
		mv := ctx.CoordSystemView()
		c.Case(fmt.Sprintf("CSV %d %s", cs, hc.Hs(W, H)), "=", hc.Hs(mv[0][0], mv[0][1], mv[0][2], mv[1][0], mv[1][1], mv[1][2]))
		c.Evals++
		o := mv.Dot(canvas.Point{})
		corner := [][2]float64{{0, 0}, {W, 0}, {W, H}, {0, H}}[cs]
		if math.Abs(o.X-corner[0]) > 1e-9 || math.Abs(o.Y-corner[1]) > 1e-9 {
			c.Fail("coordsystem-origin", fmt.Sprintf("coordinate system %d of a %vx%v canvas puts its origin at %v", cs+1, W, H, o), map[string]any{"cs": cs, "W": W, "H": H})
		}
		c.Count(fmt.Sprintf("csv system=%d", cs+1))
		c.Distinct("csv" + fmt.Sprint(cs) + hc.Hs(W, H))
	}
}

// compositing of semi-transparent draws (fill then stroke, z order), full coverage, linear space
func (g *gen) compositing() {
	c := g.c
	pre := func() color.RGBA {
		a := []int{255, 255, 128, 64, 200, 1, 254, 17}[c.Intn(8)]
		if c.Chance(0.3) {
			a = c.Intn(256)
		}
		return color.RGBA{uint8(c.Intn(a + 1)), uint8(c.Intn(a + 1)), uint8(c.Intn(a + 1)), uint8(a)}
	}
	for it := 0; it < c.N/3; it++ {
		dpmm := []float64{2, 3, 4.5}[c.Intn(3)]
		W, H := 24.0, 20.0
		C := hc.P2{X: 12.25, Y: 10.25}
		cv := canvas.New(W, H)
		ctx := canvas.NewContext(cv)
		type lay struct {
			z    int
			cols []color.RGBA
		}
		var lays []lay
		n := 1 + c.Intn(4)
		for k := 0; k < n; k++ {
			z := 0
			if c.Chance(0.3) {
				z = c.Intn(3) - 1
			}
			ctx.SetZIndex(z)
			ctx.SetStrokeColor(canvas.Transparent)
			fillc := pre()
			ctx.SetFillColor(fillc)
			cols := []color.RGBA{fillc}
			if c.Chance(0.4) { // the rectangle's left edge 1 mm left of C, stroke width 4: C is inside fill and stroke
				strokec := pre()
				ctx.SetStrokeColor(strokec)
				ctx.SetStrokeWidth(4)
				ctx.DrawPath(C.X-1, C.Y-5, canvas.Rectangle(9, 10))
				cols = append(cols, strokec)
			} else {
				w, h := float64(6+c.Intn(10)), float64(6+c.Intn(8))
				ctx.DrawPath(C.X-w/2, C.Y-h/2, canvas.Rectangle(w, h))
			}
			if fillc.A == 0 {
				cols = cols[1:] // a fully transparent paint is "no fill"
			}
			for len(cols) > 0 && cols[len(cols)-1].A == 0 {
				cols = cols[:len(cols)-1]
			}
			lays = append(lays, lay{z, cols})
		}
		sort.SliceStable(lays, func(i, j int) bool { return lays[i].z < lays[j].z })
		var seq []color.RGBA
		for _, l := range lays {
			seq = append(seq, l.cols...)
		}
		var img *image.RGBA
		if msg := hc.Try(func() { img = rasterizer.Draw(cv, canvas.DPMM(dpmm), canvas.LinearColorSpace{}) }); msg != "" {
			c.Fail("panic:Draw:"+strings.SplitN(msg, "\n", 2)[0], msg, map[string]any{"draws": fmt.Sprint(lays)})
			continue
		}
		i, j := int(C.X*dpmm), img.Bounds().Dy()-1-int(C.Y*dpmm)
		px := img.RGBAAt(i, j)
		var toks []string
		for _, col := range seq {
			toks = append(toks, fmt.Sprintf("%d %d %d %d", col.R, col.G, col.B, col.A))
		}
		c.Case(strings.TrimSpace(fmt.Sprintf("COMP %d %s", len(seq), strings.Join(toks, " "))), "=", fmt.Sprintf("%d %d %d %d", px.R, px.G, px.B, px.A))
		// oracle: ideal source-over of the premultiplied paints, in drawing order
		c.Evals++
		acc := [4]float64{}
		for _, col := range seq {
			sa := float64(col.A) / 255
			src := [4]float64{float64(col.R), float64(col.G), float64(col.B), float64(col.A)}
			for k := range acc {
				acc[k] = src[k] + acc[k]*(1-sa)
			}
		}
		got := [4]float64{float64(px.R), float64(px.G), float64(px.B), float64(px.A)}
		for k := range acc {
			if math.Abs(got[k]-acc[k]) > float64(len(seq))+0.5 {
				c.Fail("compositing-not-source-over", fmt.Sprintf("draws %v (z-sorted, fill then stroke) give pixel %v, source-over gives %v", seq, px, acc), map[string]any{"draws": fmt.Sprint(seq), "dpmm": dpmm})
				break
			}
		}
		opaque := 0
		for _, col := range seq {
			if col.A == 255 {
				opaque++
			}
		}
		c.Count(fmt.Sprintf("comp draws=%d opaque=%d", len(seq), opaque))
		c.Distinct("comp" + strings.Join(toks, ","))
	}
}

// the 8-bit colour-space conversions: complete tables for opaque colours
func (g *gen) colourTables() {
	c := g.c
	type sp struct {
		name string
		cs   canvas.ColorSpace
	}
	for _, s := range []sp{{"srgb", canvas.SRGBColorSpace{}}, {"gamma22", canvas.GammaColorSpace{Gamma: 2.2}}} {
		prevTo, prevFrom := -1, -1
		for v := 0; v < 256; v++ {
			col := color.RGBA{uint8(v), uint8(v), uint8(v), 255}
			to, from := s.cs.ToLinear(col), s.cs.FromLinear(col)
			c.Case(fmt.Sprintf("CSP %s to %d", s.name, v), "=", fmt.Sprint(to.R))
			c.Case(fmt.Sprintf("CSP %s from %d", s.name, v), "=", fmt.Sprint(from.R))
			// per-channel independence and the property-level facts: monotone, opaque stays opaque
			c.Evals++
			mixed := s.cs.ToLinear(color.RGBA{uint8(v), uint8(255 - v), uint8(v / 2), 255})
			if mixed.R != to.R || to.G != to.R || to.B != to.R || to.A != 255 || from.A != 255 {
				c.Fail("colourspace-channel-dependence", fmt.Sprintf("%s: channels are not converted independently at %d", s.name, v), map[string]any{"space": s.name, "v": v})
			}
			if int(to.R) < prevTo || int(from.R) < prevFrom {
				c.Fail("colourspace-not-monotone", fmt.Sprintf("%s conversion is not monotone at %d", s.name, v), map[string]any{"space": s.name, "v": v})
			}
			prevTo, prevFrom = int(to.R), int(from.R)
		}
		c.Count("colour table " + s.name)
	}
}

// ---- 2. pixel refinement ----

type drawRec struct {
	curved bool
	z      int
	rule   int
	polys  [][]hc.P2 // canvas mm
	col    color.RGBA
	what   string
	open   bool
	stroke bool
}

// sampleContours: every curved segment replaced by n chords computed from the segment's own
// parametrisation (independent of the library's flattener)
func sampleContours(p *canvas.Path, n int) ([][]hc.P2, bool) {
	segs, err := hc.Decode(p.Data())
	if err != nil {
		return nil, false
	}
	var cs [][]hc.P2
	for _, sp := range hc.Subpaths(segs) {
		var ct []hc.P2
		for _, s := range sp {
			if s.Kind == 'M' {
				ct = append(ct, s.End)
				continue
			}
			k := 1
			if s.Kind != 'L' && s.Kind != 'Z' {
				k = n
			}
			ct = append(ct, hc.SampleSeg(s, k)[1:]...)
		}
		if len(ct) > 1 && ct[0] == ct[len(ct)-1] {
			ct = ct[:len(ct)-1]
		}
		cs = append(cs, ct)
	}
	return cs, true
}

func closedPath(p *canvas.Path) bool {
	s := p.String()
	return strings.Count(s, "M") == strings.Count(s, "z")
}

func (g *gen) pixels() {
	c := g.c
	nimg := c.N / 3
	if nimg < 8 {
		nimg = 8
	}
	for it := 0; it < nimg; it++ {
		g.onePixelCase(it)
	}
}

func (g *gen) onePixelCase(it int) {
	c := g.c
	dpmm := resolutions[c.Intn(3)]
	if c.Chance(0.1) {
		dpmm = []float64{3, float64(canvas.DPI(96)), 1.5}[c.Intn(3)]
	}
	if c.Chance(0.3) {
		dpmm = lowResolutions[c.Intn(4)]
	}
	// canvas size so that the image stays around 100 x 80 pixels (so 120..440 mm below 1 px/mm)
	W := math.Round(c.Range(70, 110)/dpmm*4) / 4
	H := math.Round(c.Range(50, 90)/dpmm*4) / 4
	if c.Chance(0.5) {
		W, H = math.Round(W), math.Round(H)
	}
	csys := canvas.CoordSystem(c.Intn(4))
	linear := c.Bool()
	var space canvas.ColorSpace = canvas.LinearColorSpace{}
	if !linear {
		space = canvas.SRGBColorSpace{}
	}
	cv := canvas.New(W, H)
	ctx := canvas.NewContext(cv)
	ctx.SetCoordSystem(csys)
	used := map[color.RGBA]bool{}
	var draws []drawRec
	var descr []string
	unit0 := math.Min(W, H) / 20 // polygons live in [-8,8]^2
	ndraws := 1 + c.Intn(3)
	viewKinds := ""
	for k := 0; k < ndraws; k++ {
		// view: centre + rotation/scale/… ; both through the composer API and through SetView
		ctx.ResetView()
		view := ident
		compose := c.Bool()
		apply := func(name string, m aff, f func()) {
			view = view.mul(m)
			if compose {
				f()
			}
			viewKinds = name
		}
		// placement: around the centre, inside one of the four quadrants, or in a corner
		unit := unit0
		cx, cy := W/2, H/2
		switch c.Intn(4) {
		case 0:
			c.Count("placement: centre")
		case 1, 2:
			qx, qy := c.Intn(2), c.Intn(2)
			cx, cy = W*(0.25+0.5*float64(qx)), H*(0.25+0.5*float64(qy))
			unit = unit0 / 2
			c.Count(fmt.Sprintf("placement: quadrant %d,%d", qx, qy))
		default:
			qx, qy := c.Intn(2), c.Intn(2)
			cx, cy = W*(0.14+0.72*float64(qx)), H*(0.14+0.72*float64(qy))
			unit = unit0 / 3.5
			c.Count(fmt.Sprintf("placement: corner %d,%d", qx, qy))
		}
		tx, ty := cx+float64(c.Intn(9)-4)*0.25*unit, cy+float64(c.Intn(9)-4)*0.25*unit
		apply("translate", translate(tx, ty), func() { ctx.Translate(tx, ty) })
		vk := c.Intn(6)
		switch vk {
		case 0:
			apply("translate", ident, func() {})
		case 1:
			s := unit * float64(2+c.Intn(5)) / 4
			apply("scale", scale(s, s), func() { ctx.Scale(s, s) })
		case 2:
			deg := float64(90 * (1 + c.Intn(3)))
			apply("rot90", rotate(deg), func() { ctx.Rotate(deg) })
			apply("rot90", scale(unit, unit), func() { ctx.Scale(unit, unit) })
		case 3:
			deg := c.Range(0, 360)
			apply("rotate", rotate(deg), func() { ctx.Rotate(deg) })
			apply("rotate", scale(unit, unit), func() { ctx.Scale(unit, unit) })
		case 4:
			sx, sy := unit*float64(2+c.Intn(5))/4, unit*float64(2+c.Intn(5))/4
			if c.Bool() {
				sx = -sx
			}
			apply("scale-xy", scale(sx, sy), func() { ctx.Scale(sx, sy) })
		default:
			sh := float64(c.Intn(5)-2) / 4
			apply("shear", shear(sh, 0), func() { ctx.Shear(sh, 0) })
			apply("shear", scale(unit, unit), func() { ctx.Scale(unit, unit) })
		}
		if !compose {
			ctx.SetView(canvas.Matrix{{view.a, view.b, view.e}, {view.c, view.d, view.f}})
		}
		c.Count("view:" + viewKinds + map[bool]string{true: " (composers)", false: " (SetView)"}[compose])

		// z index: layers are replayed sorted by z, insertion order within one z
		z := 0
		if c.Chance(0.3) {
			z = c.Intn(4) - 1
		}
		ctx.SetZIndex(z)
		c.Count(fmt.Sprintf("zindex=%d", z))

		// path
		var pool []hc.P2
		class := []int{0, 0, 2, 3, 3, 4, 5, 5}[c.Intn(8)]
		closeAll := !c.Chance(0.08)
		var p *canvas.Path
		if class == 5 {
			// cubics whose control polygon folds back along the start tangent (the family that the flattener's
			// chord check f410714 exists for: 23% of them were beyond 4 tol before it, none after)
			p = &canvas.Path{}
			p0 := hc.P2{X: c.Range(-2, 2), Y: c.Range(-2, 2)}
			p.MoveTo(p0.X, p0.Y)
			for k := 0; k < 1+c.Intn(2); k++ {
				a := c.Range(0, 2*math.Pi)
				u, n := hc.P2{X: math.Cos(a), Y: math.Sin(a)}, hc.P2{X: -math.Sin(a), Y: math.Cos(a)}
				p1 := p0.Add(u.Mul(c.Range(2, 6)))
				p2 := p0.Add(u.Mul(-c.Range(1, 4))).Add(n.Mul(c.Range(-1, 1)))
				side := 1.0
				if c.Bool() {
					side = -1
				}
				p3 := p0.Add(u.Mul(c.Range(-3, 3))).Add(n.Mul(side * c.Range(3, 7)))
				p.CubeTo(p1.X, p1.Y, p2.X, p2.Y, p3.X, p3.Y)
				p0 = p3
			}
			p.Close()
		} else {
			p = c.GenPolygon(class, &pool, closeAll)
			if c.Chance(0.25) {
				p = p.Append(c.GenPolygon(class, &pool, closeAll))
			}
		}
		curved := class == 4 || class == 5
		if c.Chance(0.3) { // quarter-millimetre coordinates
			p = p.Scale(0.25*float64(3+c.Intn(3)), 0.25*float64(3+c.Intn(3)))
		}
		if c.Chance(0.12) { // an OPEN path: fills are implicitly closed
			if cs1, ok := hc.Contours(p); ok {
				q := &canvas.Path{}
				for _, ct := range cs1 {
					for i, v := range ct {
						if i == 0 {
							q.MoveTo(v.X, v.Y)
						} else {
							q.LineTo(v.X, v.Y)
						}
					}
				}
				p = q
			}
		}
		open := !closedPath(p)
		ox, oy := 0.25*float64(c.Intn(9)-4), 0.25*float64(c.Intn(9)-4)
		M := csv(csys, W, H).mul(view).mul(translate(ox, oy))
		cs0, ok := hc.Contours(p)
		if curved { // curved: the region is an independent fine sampling of the segments
			cs0, ok = sampleContours(p, 48)
		}
		if !ok || len(cs0) == 0 {
			c.Count("skipped: not flat")
			continue
		}
		if curved {
			// curved fills are judged with a band of 1.25 px: pixel half diagonal 0.71 + the library's
			// flattening bound (every curve within 4·PixelTolerance = 0.4 px since f410714) + roundings.
			// The bound itself is guarded here on what RenderPath/ToScanxScanner flatten: the transformed path
			// at 0.1 px, against an independent 48-chord sampling.
			var lcs [][]hc.P2
			if msg := hc.Try(func() {
				lib := p.Copy().Transform(M.canvas()).Flatten(canvas.PixelTolerance / dpmm)
				lcs, _ = hc.Contours(lib)
			}); msg == "" && len(lcs) > 0 {
				dev, at := 0.0, hc.P2{}
				for _, ct := range mapContours(M, cs0) {
					for _, pt := range ct {
						if dd := hc.DistToContours(pt, lcs); dd > dev {
							dev, at = dd, pt
						}
					}
				}
				c.Evals++
				switch d := dev * dpmm; {
				case d <= 0.1:
					c.Count("curved fill: library flattening within 0.1 px (= tolerance)")
				case d <= 0.2:
					c.Count("curved fill: library flattening within 0.2 px")
				case d <= 0.3:
					c.Count("curved fill: library flattening within 0.3 px")
				case d <= 0.4:
					c.Count("curved fill: library flattening within 0.4 px (= 4 tol, the library's bound)")
				default:
					c.Fail("flatten-tolerance-exceeded", fmt.Sprintf("the path the rasterizer flattens at 0.1 px is %.3f px (> 4 tol = 0.4 px) away from the curve at canvas point (%.4g,%.4g): the 1.25 px band of curved fills is not justified", d, at.X, at.Y),
						map[string]any{"path": p.String(), "matrix": fmt.Sprint(M), "dpmm": dpmm})
				}
			}
		}
		mode := c.Intn(10) // 0-5 fill, 6-7 stroke, 8-9 both
		rule := c.Intn(2)
		ctx.SetFillColor(canvas.Transparent)
		ctx.SetStrokeColor(canvas.Transparent)
		ctx.SetFillRule(canvas.FillRule(rule))
		d := fmt.Sprintf("%s rule=%d", p.String(), rule)
		if mode <= 5 || mode >= 8 {
			col := g.colour(used)
			ctx.SetFillColor(col)
			draws = append(draws, drawRec{curved: curved, z: z, rule: rule, polys: mapContours(M, cs0), col: col, what: "fill", open: open})
			d += fmt.Sprintf(" fill=%v", col)
			c.Count(fmt.Sprintf("draw fill rule=%d class=%d open=%v", rule, class, open))
		}
		if mode >= 6 {
			col := g.colour(used)
			w := 0.25 * float64(1+c.Intn(8))
			capper := []canvas.Capper{canvas.ButtCap, canvas.SquareCap, canvas.RoundCap}[c.Intn(3)]
			joiner := []canvas.Joiner{canvas.MiterJoin, canvas.BevelJoin, canvas.RoundJoin}[c.Intn(3)]
			ctx.SetStrokeColor(col)
			ctx.SetStrokeWidth(w)
			ctx.SetStrokeCapper(capper)
			ctx.SetStrokeJoiner(joiner)
			// dashes (in units of the stroke width, as the rasterizer scales them)
			ctx.SetDashes(0)
			var dashes []float64
			if c.Chance(0.3) {
				dashes = [][]float64{{3, 2}, {4, 4}, {2, 1, 1, 1}, {6, 3}}[c.Intn(4)]
				if L := p.Length(); c.Chance(0.4) && L >= 4 && !math.IsInf(L, 0) && !math.IsNaN(L) {
					// the unit boundary of DrawPath's "first dash covers the whole path" shortcut: the first dash is at
					// least the path length in millimetres but shorter once scaled by a stroke width below 1
					w = 0.25 * float64(1+c.Intn(3))
					ctx.SetStrokeWidth(w)
					d0 := math.Ceil(L) + float64(c.Intn(2))
					dashes = []float64{d0, d0}
				}
				ctx.SetDashes(0, append([]float64{}, dashes...)...)
				c.Count("draw stroke dashed")
				// (since 7030ab4 DrawPath decides "first dash covers the whole path" in stroke-width units like the
				// renderers; the zone where the unscaled and the scaled reading differ is counted, not excused)
				if L := p.Length(); dashes[0] >= L-1e-9 && dashes[0]*w < L-1e-9 {
					c.Count("draw stroke dashed: first dash >= path length before scaling, < after")
				}
				d += fmt.Sprintf(" dashes=%v", dashes)
			}
			// the stroke region: the library's own Dash/Stroke output (C05/C04 judge them), flattened, NonZero
			var sp *canvas.Path
			if msg := hc.Try(func() {
				q := p
				if len(dashes) > 0 {
					sc := make([]float64, len(dashes))
					for i := range dashes {
						sc[i] = dashes[i] * w
					}
					q = q.Dash(0, sc...)
				}
				sp = q.Stroke(w, capper, joiner, canvas.PixelTolerance/dpmm).Flatten(canvas.PixelTolerance / dpmm / 4)
			}); msg != "" {
				c.Count("skipped: Stroke panicked (C04/C01)")
				ctx.SetStrokeColor(canvas.Transparent)
				if mode <= 7 {
					continue
				}
			} else {
				scs, ok := hc.Contours(sp)
				if !ok {
					c.Count("skipped: stroke not flat")
					ctx.SetStrokeColor(canvas.Transparent)
					if mode <= 7 {
						continue
					}
				} else {
					draws = append(draws, drawRec{z: z, rule: 0, polys: mapContours(M, scs), col: col, what: "stroke", stroke: true})
					d += fmt.Sprintf(" stroke=%v w=%v %T %T", col, w, capper, joiner)
					c.Count(fmt.Sprintf("draw stroke %T %T", capper, joiner))
				}
			}
		}
		ctx.DrawPath(ox, oy, p)
		descr = append(descr, fmt.Sprintf("view=%v at (%v,%v): %s", view, ox, oy, d))
	}
	if len(draws) == 0 {
		return
	}
	sort.SliceStable(draws, func(i, j int) bool { return draws[i].z < draws[j].z })
	replay := map[string]any{"W": W, "H": H, "dpmm": dpmm, "coordsystem": int(csys) + 1, "linear": linear, "draws": descr}

	before := cv.VerifDump()
	var img, img2 *image.RGBA
	if msg := hc.Try(func() { img = rasterizer.Draw(cv, canvas.DPMM(dpmm), space) }); msg != "" {
		c.Fail("panic:Draw:"+strings.SplitN(msg, "\n", 2)[0], "rasterizer.Draw panicked: "+msg, replay)
		return
	}
	after := cv.VerifDump()
	c.Evals++
	if before != after {
		c.Fail("impure:canvas-changed-by-rendering", "the canvas differs after rasterizer.Draw", replay)
	}
	if msg := hc.Try(func() { img2 = rasterizer.Draw(cv, canvas.DPMM(dpmm), space) }); msg != "" {
		c.Fail("panic:Draw:"+strings.SplitN(msg, "\n", 2)[0], "second rasterizer.Draw panicked: "+msg, replay)
		return
	}
	c.Evals++
	if !bytes.Equal(img.Pix, img2.Pix) || img.Bounds() != img2.Bounds() {
		c.Fail("nondeterministic:render-twice", "rendering the same canvas twice gives different images", replay)
	}
	// image size
	wpx, hpx := img.Bounds().Dx(), img.Bounds().Dy()
	if math.Abs(float64(wpx)-W*dpmm) > 0.5+1e-9 || math.Abs(float64(hpx)-H*dpmm) > 0.5+1e-9 {
		c.Fail("image-size", fmt.Sprintf("Draw of a %v x %v mm canvas at %v px/mm has bounds %v", W, H, dpmm, img.Bounds()), replay)
	}
	tol := 0
	if !linear {
		tol = 3
	}
	rows := make([]string, hpx)
	nOther := 0
	for j := 0; j < hpx; j++ {
		row := make([]byte, wpx)
		for i := 0; i < wpx; i++ {
			px := img.RGBAAt(i, j)
			ch := byte('x')
			if px == (color.RGBA{}) {
				ch = '0'
			} else {
				for k, d := range draws {
					if near(px, d.col, tol) {
						ch = byte('1' + k)
					}
				}
			}
			if ch == 'x' {
				nOther++
			}
			row[i] = ch
		}
		rows[j] = string(row)
	}
	var sb strings.Builder
	fmt.Fprintf(&sb, "PIX %s %d %d %d", hc.H(dpmm), wpx, hpx, len(draws))
	for _, d := range draws {
		if d.curved {
			sb.WriteString(" c") // sampled curve: band 1.25 px
		} else {
			sb.WriteString(" ")
		}
		fmt.Fprintf(&sb, "%d %s", d.rule, hc.PolyTokens(d.polys))
	}
	sb.WriteString(" ROWS ")
	sb.WriteString(strings.Join(rows, " "))
	c.Case(sb.String(), "!", "pixels")
	// human-readable description of the canvas behind every PIX line (same order), for replays
	if f, err := os.OpenFile(filepath.Join(os.Args[4], "c14_pix_descr.txt"), os.O_APPEND|os.O_CREATE|os.O_WRONLY, 0o644); err == nil {
		fmt.Fprintf(f, "%vx%v mm @%v px/mm, system %d, linear=%v: %s\n", W, H, dpmm, int(csys)+1, linear, strings.Join(descr, " ; "))
		f.Close()
	}
	c.Evals += wpx * hpx
	c.Distinct(strings.Join(descr, ";"))
	c.Count(fmt.Sprintf("image dpmm=%.4g", dpmm))
	c.Count(fmt.Sprintf("image coordsystem=%d", int(csys)+1))
	c.Count(fmt.Sprintf("image linear=%v", linear))
	c.Count(fmt.Sprintf("image draws=%d", len(draws)))
	if it < 2 {
		c.Sample(fmt.Sprintf("%vx%v mm @%v px/mm, system %d, linear=%v: %s -> %dx%d px, %d blended pixels", W, H, dpmm, int(csys)+1, linear, strings.Join(descr, " ; "), wpx, hpx, nOther))
	}
}

// ---- 3. gradients: independent evaluation in millimetres ----

func lerp8(a, b uint8, t float64) float64 { return (1-t)*float64(a) + t*float64(b) }

type gstop struct {
	off float64
	col color.RGBA
}

func stopsAt(st []gstop, t float64) [4]float64 {
	f := func(c color.RGBA) [4]float64 { return [4]float64{float64(c.R), float64(c.G), float64(c.B), float64(c.A)} }
	if t <= st[0].off {
		return f(st[0].col)
	}
	for i := 1; i < len(st); i++ {
		if t < st[i].off {
			u := (t - st[i-1].off) / (st[i].off - st[i-1].off)
			a, b := st[i-1].col, st[i].col
			return [4]float64{lerp8(a.R, b.R, u), lerp8(a.G, b.G, u), lerp8(a.B, b.B, u), lerp8(a.A, b.A, u)}
		}
	}
	return f(st[len(st)-1].col)
}

// colour range of the gradient over parameters within dt of t0
func gradRangeT(st []gstop, t0, dt float64) (lo, hi [4]float64) {
	for k := 0; k < 4; k++ {
		lo[k], hi[k] = 1e9, -1e9
	}
	ts := []float64{t0 - dt, t0, t0 + dt}
	for _, sst := range st { // stop positions inside the interval are extrema
		if sst.off > t0-dt && sst.off < t0+dt {
			ts = append(ts, sst.off)
		}
	}
	for _, t := range ts {
		v := stopsAt(st, t)
		for k := 0; k < 4; k++ {
			lo[k], hi[k] = math.Min(lo[k], v[k]), math.Max(hi[k], v[k])
		}
	}
	return
}

// sRGB transfer functions (EXT_sRGB), written from the standard
func srgbToLin(c float64) float64 {
	if c <= 0.04045 {
		return c / 12.92
	}
	return math.Pow((c+0.055)/1.055, 2.4)
}
func linToSrgb(c float64) float64 {
	switch {
	case c <= 0:
		return 0
	case c < 0.0031308:
		return 12.92 * c
	case c < 1:
		return 1.055*math.Pow(c, 1/2.4) - 0.055
	}
	return 1
}

// expected colour range of a gradient rendered in the given colour space: in sRGB the stops are taken
// to linear light (8 bit), interpolated there, and the image is taken back; the 8-bit steps in linear
// light (stop rounding 0.5, interpolation truncation 1) are widened before going back
func gradRangeSpace(st []gstop, t0, dt float64, linearSpace bool) (lo, hi [4]float64, tol float64) {
	if linearSpace {
		lo, hi = gradRangeT(st, t0, dt)
		return lo, hi, 2
	}
	for k := 0; k < 4; k++ {
		lo[k], hi[k] = 1e9, -1e9
	}
	ts := []float64{t0 - dt, t0, t0 + dt}
	for _, sst := range st {
		if sst.off > t0-dt && sst.off < t0+dt {
			ts = append(ts, sst.off)
		}
	}
	lin := func(c color.RGBA) [4]float64 {
		return [4]float64{255 * srgbToLin(float64(c.R)/255), 255 * srgbToLin(float64(c.G)/255), 255 * srgbToLin(float64(c.B)/255), float64(c.A)}
	}
	at := func(t float64) [4]float64 {
		if t <= st[0].off {
			return lin(st[0].col)
		}
		for i := 1; i < len(st); i++ {
			if t < st[i].off {
				u := (t - st[i-1].off) / (st[i].off - st[i-1].off)
				a, b := lin(st[i-1].col), lin(st[i].col)
				var v [4]float64
				for k := range v {
					v[k] = (1-u)*a[k] + u*b[k]
				}
				return v
			}
		}
		return lin(st[len(st)-1].col)
	}
	for _, t := range ts {
		v := at(t)
		for k := 0; k < 4; k++ {
			lo[k], hi[k] = math.Min(lo[k], v[k]), math.Max(hi[k], v[k])
		}
	}
	for k := 0; k < 3; k++ {
		lo[k] = 255 * linToSrgb(math.Max(lo[k]-1.6, 0)/255)
		hi[k] = 255 * linToSrgb(math.Min(hi[k]+1.6, 255)/255)
	}
	return lo, hi, 1.6
}

// gradient geometry, evaluated independently of the library: parameter at p and |dt/dp|
type ggeom struct {
	radial bool
	s, e   hc.P2   // linear: start, end; radial: s = common centre
	r0, r1 float64 // radial (concentric)
}

func (g ggeom) t(p hc.P2) float64 {
	if g.radial {
		return (p.Sub(g.s).Len() - g.r0) / (g.r1 - g.r0)
	}
	d := g.e.Sub(g.s)
	return p.Sub(g.s).Dot(d) / d.Dot(d)
}
func (g ggeom) slope() float64 {
	if g.radial {
		return 1 / math.Abs(g.r1-g.r0)
	}
	return 1 / g.e.Sub(g.s).Len()
}

func inRange(px color.RGBA, lo, hi [4]float64, tol float64) bool {
	v := [4]float64{float64(px.R), float64(px.G), float64(px.B), float64(px.A)}
	for k := 0; k < 4; k++ {
		if v[k] < lo[k]-tol || v[k] > hi[k]+tol {
			return false
		}
	}
	return true
}

// recGrad is a Gradient that records where it is evaluated and answers with the call number as colour
type recGrad struct{ calls *[][2]float64 }

func (r recGrad) SetView(canvas.Matrix) canvas.Gradient            { return r }
func (r recGrad) SetColorSpace(canvas.ColorSpace) canvas.Gradient { return r }
func (r recGrad) At(x, y float64) color.RGBA {
	idx := len(*r.calls)
	*r.calls = append(*r.calls, [2]float64{x, y})
	return color.RGBA{uint8(idx >> 16), uint8(idx >> 8), uint8(idx), 255}
}

// gradLookup: which canvas point does pixel (i, j) evaluate its gradient at? ('=' against the Lean model)
func (g *gen) gradLookup() {
	c := g.c
	n := c.N / 20
	if n < 4 {
		n = 4
	}
	for it := 0; it < n; it++ {
		dpmm := g.res()
		wpxT, hpxT := 12+c.Intn(50), 10+c.Intn(40)
		W, H := math.Round(float64(wpxT)/dpmm*4)/4, math.Round(float64(hpxT)/dpmm*4)/4
		if W*dpmm < 4 || H*dpmm < 4 {
			continue
		}
		cv := canvas.New(W, H)
		ctx := canvas.NewContext(cv)
		var calls [][2]float64
		ctx.SetFillGradient(recGrad{&calls})
		ctx.DrawPath(0, 0, canvas.Rectangle(W, H))
		var img *image.RGBA
		if msg := hc.Try(func() { img = rasterizer.Draw(cv, canvas.DPMM(dpmm), canvas.LinearColorSpace{}) }); msg != "" {
			c.Fail("panic:Draw:"+strings.SplitN(msg, "\n", 2)[0], "rasterizer.Draw panicked: "+msg, map[string]any{"W": W, "H": H, "dpmm": dpmm})
			continue
		}
		wpx, hpx := img.Bounds().Dx(), img.Bounds().Dy()
		for k := 0; k < 25; k++ {
			i, j := 1+c.Intn(wpx-2), 1+c.Intn(hpx-2)
			px := img.RGBAAt(i, j)
			idx := int(px.R)<<16 | int(px.G)<<8 | int(px.B)
			if px.A != 255 || idx >= len(calls) {
				c.Count("gradlookup: pixel not fully covered")
				continue
			}
			a := calls[idx]
			c.Case(fmt.Sprintf("GRAD %d %s %d %d", hpx, hc.H(dpmm), i, j), "=", hc.Hs(a[0], a[1]))
			c.Evals++
			if math.Abs(a[0]*dpmm-(float64(i)+0.5)) > 1e-6 || math.Abs((float64(hpx)-a[1]*dpmm)-(float64(j)+0.5)) > 1e-6 {
				c.Fail("gradient-lookup-not-pixel-centre", fmt.Sprintf("pixel (%d,%d) of a %d px high image at %v px/mm evaluates its gradient at (%v,%v): pixel position (%v,%v)", i, j, hpx, dpmm, a[0], a[1], a[0]*dpmm, float64(hpx)-a[1]*dpmm),
					map[string]any{"W": W, "H": H, "dpmm": dpmm, "pixel": []int{i, j}})
			}
			if dpmm < 1 {
				c.Count("gradlookup dpmm<1")
			} else {
				c.Count("gradlookup dpmm>=1")
			}
			c.Distinct(fmt.Sprintf("gl %v %d %d %d", dpmm, hpx, i, j))
		}
	}
}

func (g *gen) gradients() {
	c := g.c
	n := c.N / 6
	if n < 6 {
		n = 6
	}
	for it := 0; it < n; it++ {
		dpmm := resolutions[c.Intn(3)]
		W, H := float64(16+4*c.Intn(4)), float64(8+4*c.Intn(3))
		if c.Chance(0.25) {
			dpmm = lowResolutions[c.Intn(4)]
			W, H = math.Round(W/dpmm), math.Round(H/dpmm)
		}
		linear := c.Bool()
		var space canvas.ColorSpace = canvas.LinearColorSpace{}
		if !linear {
			space = canvas.SRGBColorSpace{}
		}
		var s, e hc.P2
		dir := c.Intn(4) // 0 horizontal, 1 vertical, 2 diagonal, 3 radial (concentric)
		geo := ggeom{}
		switch dir {
		case 0: // horizontal
			s, e = hc.P2{X: float64(c.Intn(4)), Y: 0}, hc.P2{X: W - float64(c.Intn(4)), Y: 0}
		case 1: // vertical
			s, e = hc.P2{X: 0, Y: float64(c.Intn(3))}, hc.P2{X: 0, Y: H - float64(c.Intn(3))}
		case 2:
			s, e = hc.P2{X: float64(c.Intn(4)), Y: float64(c.Intn(3))}, hc.P2{X: W - float64(c.Intn(4)), Y: H - float64(c.Intn(3))}
		default:
			s = hc.P2{X: W * (0.25 + 0.5*c.Float()), Y: H * (0.25 + 0.5*c.Float())}
			e = s
			geo.radial, geo.r0, geo.r1 = true, float64(c.Intn(2))*H/8, math.Max(W, H)*(0.4+0.4*c.Float())
		}
		if dir < 3 && c.Chance(0.2) {
			s, e = e, s
		}
		geo.s, geo.e = s, e
		var gr canvas.Gradient
		var grStops *canvas.Stops
		var add func(float64, color.RGBA)
		if geo.radial {
			rg := canvas.NewRadialGradient(canvas.Point{X: s.X, Y: s.Y}, geo.r0, canvas.Point{X: s.X, Y: s.Y}, geo.r1)
			gr, grStops, add = rg, &rg.Stops, rg.Add
		} else {
			lg := canvas.NewLinearGradient(canvas.Point{X: s.X, Y: s.Y}, canvas.Point{X: e.X, Y: e.Y})
			gr, grStops, add = lg, &lg.Stops, lg.Add
		}
		used := map[color.RGBA]bool{}
		var st []gstop
		ns := 2 + c.Intn(2)
		for k := 0; k < ns; k++ {
			off := float64(k) / float64(ns-1)
			col := g.colour(used)
			st = append(st, gstop{off, col})
			add(off, col)
		}
		cv := canvas.New(W, H)
		ctx := canvas.NewContext(cv)
		// painted region: the whole canvas (fill) or a horizontal band (stroke of the middle line)
		stroke := c.Chance(0.35)
		bandLo, bandHi := 0.0, H
		if stroke {
			ctx.SetFillColor(canvas.Transparent)
			ctx.SetStrokeGradient(gr)
			ctx.SetStrokeWidth(0.6 * H)
			ctx.SetStrokeCapper(canvas.ButtCap)
			mid := &canvas.Path{}
			mid.MoveTo(0, H/2)
			mid.LineTo(W, H/2)
			ctx.DrawPath(0, 0, mid)
			bandLo, bandHi = 0.2*H, 0.8*H
		} else {
			ctx.SetFillGradient(gr)
			ctx.DrawPath(0, 0, canvas.Rectangle(W, H))
		}
		replay := map[string]any{"W": W, "H": H, "dpmm": dpmm, "linear": linear, "start": []float64{s.X, s.Y}, "end": []float64{e.X, e.Y}, "stops": fmt.Sprint(st),
			"radial": geo.radial, "r0": geo.r0, "r1": geo.r1, "stroke": stroke}
		before := cv.VerifDump()
		stopsBefore := append(canvas.Stops{}, (*grStops)...)
		var img, img2 *image.RGBA
		if msg := hc.Try(func() { img = rasterizer.Draw(cv, canvas.DPMM(dpmm), space) }); msg != "" {
			c.Fail("panic:Draw:"+strings.SplitN(msg, "\n", 2)[0], "rasterizer.Draw panicked: "+msg, replay)
			continue
		}
		mutated := fmt.Sprint(stopsBefore) != fmt.Sprint(*grStops)
		c.Evals++
		if after := cv.VerifDump(); after != before {
			if mutated && !linear {
				c.Fail("impure:SetColorSpace-mutates-stops", fmt.Sprintf("rendering in %T rewrote the gradient's stops %v -> %v", space, stopsBefore, *grStops), replay)
			} else {
				c.Fail("impure:canvas-changed-by-rendering", "the canvas differs after rasterizer.Draw", replay)
			}
		}
		hc.Try(func() { img2 = rasterizer.Draw(cv, canvas.DPMM(dpmm), space) })
		c.Evals++
		if img2 == nil || !bytes.Equal(img.Pix, img2.Pix) {
			c.Fail("nondeterministic:render-twice", fmt.Sprintf("rendering the same gradient canvas twice gives different images (stops rewritten by the first render: %v)", mutated), replay)
		}
		c.Count(fmt.Sprintf("gradient dir=%d stroke=%v dpmm=%.3g linear=%v", dir, stroke, dpmm, linear))
		c.Distinct(fmt.Sprint(replay))

		// judge an image against a gradient specification (geometry + stops) in a colour space; `old` (if
		// any) is the specification before a mutation: matching it instead is the stale-gradient class
		judge := func(img *image.RGBA, geo ggeom, st []gstop, linearSpace bool, oldGeo *ggeom, oldSt []gstop, what string, replay map[string]any) {
			wpx, hpx := img.Bounds().Dx(), img.Bounds().Dy()
			bad, badUnits, badStale := 0, 0, 0
			var first string
			for k := 0; k < 60; k++ {
				i, j := 1+c.Intn(wpx-2), 1+c.Intn(hpx-2)
				px := img.RGBAAt(i, j)
				mm := hc.P2{X: (float64(i) + 0.5) / dpmm, Y: (float64(hpx) - float64(j) - 0.5) / dpmm}
				if mm.Y < bandLo+1.5/dpmm || mm.Y > bandHi-1.5/dpmm {
					if stroke && (mm.Y < bandLo-1.5/dpmm || mm.Y > bandHi+1.5/dpmm) && px != (color.RGBA{}) {
						c.Fail("gradient-stroke-outside-band", fmt.Sprintf("pixel (%d,%d) = canvas (%.3g,%.3g) mm lies outside the stroked band but has colour %v", i, j, mm.X, mm.Y, px), replay)
					}
					continue
				}
				lo, hi, tol := gradRangeSpace(st, geo.t(mm), geo.slope()/dpmm, linearSpace)
				c.Evals++
				if inRange(px, lo, hi, tol) {
					continue
				}
				bad++
				// hypothesis: evaluated at the pixel indices (x, y) instead of millimetres
				lo2, hi2, _ := gradRangeSpace(st, geo.t(hc.P2{X: float64(i), Y: float64(j)}), geo.slope(), linearSpace)
				if inRange(px, lo2, hi2, tol) {
					badUnits++
				}
				// hypothesis: the gradient as it was before the mutation
				if oldGeo != nil {
					lo3, hi3, _ := gradRangeSpace(oldSt, oldGeo.t(mm), oldGeo.slope()/dpmm, linearSpace)
					if inRange(px, lo3, hi3, tol) {
						badStale++
					}
				}
				if first == "" {
					first = fmt.Sprintf("pixel (%d,%d) = canvas (%.3g,%.3g) mm has colour %v, expected within %v..%v", i, j, mm.X, mm.Y, px, lo, hi)
				}
			}
			if bad > 0 {
				kind := "gradient-colour-wrong"
				if oldGeo != nil && bad == badStale {
					kind = "gradient-stale-after-mutation"
				} else if bad == badUnits {
					kind = "gradient-pixel-units"
				}
				replay["first"] = first
				c.Fail(kind, fmt.Sprintf("%s: %d of 60 sampled pixels have the wrong gradient colour (%d explained by evaluation at pixel indices, %d by the gradient before the mutation); %s", what, bad, badUnits, badStale, first), replay)
			} else {
				c.Count(fmt.Sprintf("gradient colours agree with millimetre evaluation (%s, linear=%v)", what, linearSpace))
			}
		}
		judge(img, geo, st, linear, nil, nil, "first render", replay)

		// HISTORY: the gradient object has now been rendered. Mutate it (or derive a view copy, or
		// nothing), draw it on a fresh canvas, render in the same or another colour space, and judge the
		// second image against the MUTATED gradient: rendering must leave no state behind in the gradient
		if c.Chance(0.25) {
			continue
		}
		oldGeo, oldSt := geo, append([]gstop{}, st...)
		geo2, st2 := geo, append([]gstop{}, st...)
		gr2 := gr
		mut := c.Intn(4)
		mutName := ""
		switch mut {
		case 0: // replace every stop colour, count unchanged
			mutName = "recolour"
			for i := range st2 {
				col := g.colour(used)
				st2[i].col = col
				if c.Bool() {
					(*grStops)[i].Color = col
				} else {
					add(st2[i].off, col) // Add on an existing offset replaces the colour
				}
			}
		case 1: // move an inner stop (3 stops) or insert one (count changes)
			if len(st2) == 3 {
				mutName = "move-offset"
				st2[1].off = []float64{0.2, 0.35, 0.65, 0.8}[c.Intn(4)]
				(*grStops)[1].Offset = st2[1].off
			} else {
				mutName = "insert-stop"
				col := g.colour(used)
				st2 = []gstop{st2[0], {0.5, col}, st2[1]}
				add(0.5, col)
			}
		case 2: // a SetView copy (translated, scaled), taken AFTER the first render
			mutName = "setview-copy"
			dx, dy, sc := W*(0.1+0.2*c.Float()), H*(0.1+0.2*c.Float()), []float64{1, 0.5, 0.75}[c.Intn(3)]
			if geo.radial {
				sc = 1 // RadialGradient.SetView moves the centres only
			}
			gr2 = gr.SetView(canvas.Identity.Translate(dx, dy).Scale(sc, sc))
			tr := func(p hc.P2) hc.P2 { return hc.P2{X: dx + sc*p.X, Y: dy + sc*p.Y} }
			geo2.s, geo2.e = tr(geo.s), tr(geo.e)
			// (radii are not scaled by RadialGradient.SetView: only the centres move)
		default:
			mutName = "none"
		}
		linear2 := c.Bool()
		var space2 canvas.ColorSpace = canvas.LinearColorSpace{}
		if !linear2 {
			space2 = canvas.SRGBColorSpace{}
		}
		cv2 := canvas.New(W, H)
		ctx2 := canvas.NewContext(cv2)
		if stroke {
			ctx2.SetFillColor(canvas.Transparent)
			ctx2.SetStrokeGradient(gr2)
			ctx2.SetStrokeWidth(0.6 * H)
			ctx2.SetStrokeCapper(canvas.ButtCap)
			mid := &canvas.Path{}
			mid.MoveTo(0, H/2)
			mid.LineTo(W, H/2)
			ctx2.DrawPath(0, 0, mid)
		} else {
			ctx2.SetFillGradient(gr2)
			ctx2.DrawPath(0, 0, canvas.Rectangle(W, H))
		}
		replay2 := map[string]any{"W": W, "H": H, "dpmm": dpmm, "radial": geo.radial, "stroke": stroke,
			"first render": map[string]any{"linear": linear, "start": []float64{s.X, s.Y}, "end": []float64{e.X, e.Y}, "r0": geo.r0, "r1": geo.r1, "stops": fmt.Sprint(oldSt)},
			"mutation":     mutName,
			"second render": map[string]any{"linear": linear2, "start": []float64{geo2.s.X, geo2.s.Y}, "end": []float64{geo2.e.X, geo2.e.Y}, "stops": fmt.Sprint(st2)}}
		var img3 *image.RGBA
		if msg := hc.Try(func() { img3 = rasterizer.Draw(cv2, canvas.DPMM(dpmm), space2) }); msg != "" {
			c.Fail("panic:Draw:"+strings.SplitN(msg, "\n", 2)[0], "rasterizer.Draw panicked: "+msg, replay2)
			continue
		}
		c.Count(fmt.Sprintf("gradient history: %v -> %s -> %v", map[bool]string{true: "linear", false: "sRGB"}[linear], mutName, map[bool]string{true: "linear", false: "sRGB"}[linear2]))
		c.Distinct(fmt.Sprint(replay2))
		judge(img3, geo2, st2, linear2, &oldGeo, oldSt, "render after "+mutName, replay2)
	}
}
