package main

// A minimal, independent PDF reader (PDF 32000-1 §7.2–7.5, §7.8.2 content streams): enough to walk
// from the trailer to page content streams and font dictionaries. It shares no code with
// /repo/renderers/pdf.

import (
	"bytes"
	"compress/zlib"
	"fmt"
	"io"
	"strconv"
)

type pName string
type pRef int
type pOp string
type pStr []byte // literal or hex string, decoded
type pArr []any
type pDict map[string]any
type pStream struct {
	Dict pDict
	Data []byte // raw (still filtered)
}

type pLexer struct {
	b   []byte
	pos int
}

func isWS(c byte) bool { return c == 0 || c == 9 || c == 10 || c == 12 || c == 13 || c == 32 }
func isDelim(c byte) bool {
	switch c {
	case '(', ')', '<', '>', '[', ']', '{', '}', '/', '%':
		return true
	}
	return false
}

func (l *pLexer) skipWS() {
	for l.pos < len(l.b) {
		c := l.b[l.pos]
		if isWS(c) {
			l.pos++
		} else if c == '%' {
			for l.pos < len(l.b) && l.b[l.pos] != '\n' && l.b[l.pos] != '\r' {
				l.pos++
			}
		} else {
			break
		}
	}
}

func hexVal(c byte) int {
	switch {
	case '0' <= c && c <= '9':
		return int(c - '0')
	case 'a' <= c && c <= 'f':
		return int(c-'a') + 10
	case 'A' <= c && c <= 'F':
		return int(c-'A') + 10
	}
	return -1
}

// next parses one object or operator; returns nil at end of input.
func (l *pLexer) next() (any, error) {
	l.skipWS()
	if l.pos >= len(l.b) {
		return nil, io.EOF
	}
	c := l.b[l.pos]
	switch {
	case c == '/':
		l.pos++
		s := l.pos
		var out []byte
		for l.pos < len(l.b) && !isWS(l.b[l.pos]) && !isDelim(l.b[l.pos]) {
			if l.b[l.pos] == '#' && l.pos+2 < len(l.b) && hexVal(l.b[l.pos+1]) >= 0 && hexVal(l.b[l.pos+2]) >= 0 {
				out = append(out, byte(hexVal(l.b[l.pos+1])<<4|hexVal(l.b[l.pos+2])))
				l.pos += 3
				continue
			}
			out = append(out, l.b[l.pos])
			l.pos++
		}
		_ = s
		return pName(out), nil
	case c == '(':
		l.pos++
		depth := 1
		var out []byte
		for l.pos < len(l.b) {
			ch := l.b[l.pos]
			l.pos++
			switch ch {
			case '\\':
				if l.pos >= len(l.b) {
					return nil, fmt.Errorf("bad string escape")
				}
				e := l.b[l.pos]
				l.pos++
				switch e {
				case 'n':
					out = append(out, '\n')
				case 'r':
					out = append(out, '\r')
				case 't':
					out = append(out, '\t')
				case 'b':
					out = append(out, '\b')
				case 'f':
					out = append(out, '\f')
				case '(', ')', '\\':
					out = append(out, e)
				case '\r':
					if l.pos < len(l.b) && l.b[l.pos] == '\n' {
						l.pos++
					}
				case '\n':
				default:
					if '0' <= e && e <= '7' {
						v := int(e - '0')
						for k := 0; k < 2 && l.pos < len(l.b) && '0' <= l.b[l.pos] && l.b[l.pos] <= '7'; k++ {
							v = v*8 + int(l.b[l.pos]-'0')
							l.pos++
						}
						out = append(out, byte(v))
					} else {
						out = append(out, e)
					}
				}
			case '(':
				depth++
				out = append(out, ch)
			case ')':
				depth--
				if depth == 0 {
					return pStr(out), nil
				}
				out = append(out, ch)
			case '\r':
				// an unescaped end-of-line inside a literal string reads as \n (§7.3.4.2)
				if l.pos < len(l.b) && l.b[l.pos] == '\n' {
					l.pos++
				}
				out = append(out, '\n')
			default:
				out = append(out, ch)
			}
		}
		return nil, fmt.Errorf("unterminated string")
	case c == '<':
		if l.pos+1 < len(l.b) && l.b[l.pos+1] == '<' {
			l.pos += 2
			d := pDict{}
			for {
				l.skipWS()
				if l.pos+1 < len(l.b) && l.b[l.pos] == '>' && l.b[l.pos+1] == '>' {
					l.pos += 2
					return d, nil
				}
				k, err := l.next()
				if err != nil {
					return nil, err
				}
				kn, ok := k.(pName)
				if !ok {
					return nil, fmt.Errorf("dict key is not a name: %v", k)
				}
				v, err := l.nextObj()
				if err != nil {
					return nil, err
				}
				d[string(kn)] = v
			}
		}
		l.pos++
		var out []byte
		hi := -1
		for l.pos < len(l.b) {
			ch := l.b[l.pos]
			l.pos++
			if ch == '>' {
				if hi >= 0 {
					out = append(out, byte(hi<<4))
				}
				return pStr(out), nil
			}
			if isWS(ch) {
				continue
			}
			v := hexVal(ch)
			if v < 0 {
				return nil, fmt.Errorf("bad hex string")
			}
			if hi < 0 {
				hi = v
			} else {
				out = append(out, byte(hi<<4|v))
				hi = -1
			}
		}
		return nil, fmt.Errorf("unterminated hex string")
	case c == '[':
		l.pos++
		arr := pArr{}
		for {
			l.skipWS()
			if l.pos < len(l.b) && l.b[l.pos] == ']' {
				l.pos++
				return arr, nil
			}
			v, err := l.nextObj()
			if err != nil {
				return nil, err
			}
			arr = append(arr, v)
		}
	case c == ']' || c == '>' || c == ')' || c == '{' || c == '}':
		return nil, fmt.Errorf("unexpected %q at %d", c, l.pos)
	}
	s := l.pos
	for l.pos < len(l.b) && !isWS(l.b[l.pos]) && !isDelim(l.b[l.pos]) {
		l.pos++
	}
	tok := string(l.b[s:l.pos])
	if tok == "" {
		return nil, fmt.Errorf("empty token at %d", s)
	}
	if f, err := strconv.ParseFloat(tok, 64); err == nil && (tok[0] == '+' || tok[0] == '-' || tok[0] == '.' || ('0' <= tok[0] && tok[0] <= '9')) {
		return f, nil
	}
	switch tok {
	case "true":
		return true, nil
	case "false":
		return false, nil
	case "null":
		return nil, nil
	}
	return pOp(tok), nil
}

// nextObj parses an object where an indirect reference `n g R` may occur.
func (l *pLexer) nextObj() (any, error) {
	v, err := l.next()
	if err != nil {
		return nil, err
	}
	if f, ok := v.(float64); ok && f == float64(int(f)) && f >= 0 {
		save := l.pos
		v2, err2 := l.next()
		if g, ok2 := v2.(float64); err2 == nil && ok2 && g == float64(int(g)) {
			v3, err3 := l.next()
			if op, ok3 := v3.(pOp); err3 == nil && ok3 && op == "R" {
				return pRef(int(f)), nil
			}
		}
		l.pos = save
	}
	return v, nil
}

type pdfFile struct {
	b       []byte
	offsets map[int]int
	Trailer pDict
	cache   map[int]any
}

func openPDF(b []byte) (*pdfFile, error) {
	i := bytes.LastIndex(b, []byte("startxref"))
	if i < 0 {
		return nil, fmt.Errorf("no startxref")
	}
	l := &pLexer{b: b, pos: i + len("startxref")}
	v, err := l.next()
	off, ok := v.(float64)
	if err != nil || !ok {
		return nil, fmt.Errorf("bad startxref")
	}
	l.pos = int(off)
	if t, _ := l.next(); t != pOp("xref") {
		return nil, fmt.Errorf("no xref table at %d", int(off))
	}
	f := &pdfFile{b: b, offsets: map[int]int{}, cache: map[int]any{}}
	for {
		save := l.pos
		t, err := l.next()
		if err != nil {
			return nil, err
		}
		if t == pOp("trailer") {
			break
		}
		first, ok1 := t.(float64)
		t2, _ := l.next()
		cnt, ok2 := t2.(float64)
		if !ok1 || !ok2 {
			return nil, fmt.Errorf("bad xref subsection at %d", save)
		}
		for k := 0; k < int(cnt); k++ {
			a, _ := l.next()
			_, _ = l.next()
			kind, _ := l.next()
			if kind == pOp("n") {
				f.offsets[int(first)+k] = int(a.(float64))
			}
		}
	}
	tr, err := l.next()
	if err != nil {
		return nil, err
	}
	f.Trailer, ok = tr.(pDict)
	if !ok {
		return nil, fmt.Errorf("bad trailer")
	}
	return f, nil
}

// parseObjAt parses `n g obj … endobj` at off; returns the object number, value and end offset.
func (f *pdfFile) parseObjAt(off int) (int, any, int, error) {
	l := &pLexer{b: f.b, pos: off}
	a, _ := l.next()
	_, _ = l.next()
	o, _ := l.next()
	num, ok := a.(float64)
	if !ok || o != pOp("obj") {
		return 0, nil, 0, fmt.Errorf("bad object header at offset %d", off)
	}
	n := int(num)
	v, err := l.nextObj()
	if err != nil {
		return 0, nil, 0, fmt.Errorf("object %d: %v", n, err)
	}
	save := l.pos
	t, _ := l.next()
	if t == pOp("stream") {
		d, ok := v.(pDict)
		if !ok {
			return 0, nil, 0, fmt.Errorf("object %d: stream without dict", n)
		}
		p := save
		for p < len(f.b) && f.b[p] != 's' {
			p++
		}
		p += len("stream")
		if p < len(f.b) && f.b[p] == '\r' {
			p++
		}
		if p < len(f.b) && f.b[p] == '\n' {
			p++
		}
		ln, err := f.Int(d["Length"])
		if err != nil || p+ln > len(f.b) {
			return 0, nil, 0, fmt.Errorf("object %d: bad stream length", n)
		}
		data := f.b[p : p+ln]
		l = &pLexer{b: f.b, pos: p + ln}
		if e, _ := l.next(); e != pOp("endstream") {
			return 0, nil, 0, fmt.Errorf("object %d: endstream not found after %d bytes", n, ln)
		}
		v = &pStream{Dict: d, Data: data}
		t, _ = l.next()
	}
	if t != pOp("endobj") {
		return 0, nil, 0, fmt.Errorf("object %d: endobj not found", n)
	}
	return n, v, l.pos, nil
}

// Obj returns the indirect object (a value or *pStream).
func (f *pdfFile) Obj(n int) (any, error) {
	if v, ok := f.cache[n]; ok {
		return v, nil
	}
	off, ok := f.offsets[n]
	if !ok {
		return nil, fmt.Errorf("object %d not in xref", n)
	}
	m, v, _, err := f.parseObjAt(off)
	if err != nil {
		return nil, err
	}
	if m != n {
		return nil, fmt.Errorf("object %d: header at offset %d says %d", n, off, m)
	}
	f.cache[n] = v
	return v, nil
}

// scanObjects reads a bare sequence of indirect objects (no xref), as emitted by the writeFont hook.
func scanObjects(b []byte) (*pdfFile, []int, error) {
	f := &pdfFile{b: b, offsets: map[int]int{}, cache: map[int]any{}}
	var order []int
	pos := 0
	for {
		l := &pLexer{b: b, pos: pos}
		l.skipWS()
		if l.pos >= len(b) {
			return f, order, nil
		}
		n, v, end, err := f.parseObjAt(l.pos)
		if err != nil {
			return nil, nil, err
		}
		f.offsets[n] = l.pos
		f.cache[n] = v
		order = append(order, n)
		pos = end
	}
}

// R resolves indirect references.
func (f *pdfFile) R(v any) (any, error) {
	for k := 0; k < 16; k++ {
		r, ok := v.(pRef)
		if !ok {
			return v, nil
		}
		var err error
		v, err = f.Obj(int(r))
		if err != nil {
			return nil, err
		}
	}
	return nil, fmt.Errorf("reference chain too long")
}

func (f *pdfFile) Int(v any) (int, error) {
	v, err := f.R(v)
	if err != nil {
		return 0, err
	}
	x, ok := v.(float64)
	if !ok || x != float64(int(x)) {
		return 0, fmt.Errorf("not an integer: %v", v)
	}
	return int(x), nil
}

func (f *pdfFile) Dict(v any) (pDict, error) {
	v, err := f.R(v)
	if err != nil {
		return nil, err
	}
	switch d := v.(type) {
	case pDict:
		return d, nil
	case *pStream:
		return d.Dict, nil
	}
	return nil, fmt.Errorf("not a dictionary: %T", v)
}

func (f *pdfFile) Arr(v any) (pArr, error) {
	v, err := f.R(v)
	if err != nil {
		return nil, err
	}
	a, ok := v.(pArr)
	if !ok {
		return nil, fmt.Errorf("not an array: %T", v)
	}
	return a, nil
}

// StreamData returns the decoded stream (FlateDecode or none).
func (f *pdfFile) StreamData(v any) ([]byte, error) {
	v, err := f.R(v)
	if err != nil {
		return nil, err
	}
	s, ok := v.(*pStream)
	if !ok {
		return nil, fmt.Errorf("not a stream: %T", v)
	}
	flt, err := f.R(s.Dict["Filter"])
	if err != nil {
		return nil, err
	}
	var filters []string
	switch x := flt.(type) {
	case nil:
	case pName:
		filters = []string{string(x)}
	case pArr:
		for _, e := range x {
			if n, ok := e.(pName); ok {
				filters = append(filters, string(n))
			}
		}
	}
	data := s.Data
	for _, fl := range filters {
		switch fl {
		case "FlateDecode":
			r, err := zlib.NewReader(bytes.NewReader(data))
			if err != nil {
				return nil, err
			}
			data, err = io.ReadAll(r)
			if err != nil {
				return nil, err
			}
		default:
			return nil, fmt.Errorf("unsupported filter %s", fl)
		}
	}
	return data, nil
}

// Pages returns the page dictionaries in order.
func (f *pdfFile) Pages() ([]pDict, error) {
	root, err := f.Dict(f.Trailer["Root"])
	if err != nil {
		return nil, err
	}
	var out []pDict
	var walk func(v any, depth int) error
	walk = func(v any, depth int) error {
		if depth > 32 {
			return fmt.Errorf("page tree too deep")
		}
		d, err := f.Dict(v)
		if err != nil {
			return err
		}
		if d["Type"] == pName("Pages") {
			kids, err := f.Arr(d["Kids"])
			if err != nil {
				return err
			}
			for _, k := range kids {
				if err := walk(k, depth+1); err != nil {
					return err
				}
			}
			return nil
		}
		out = append(out, d)
		return nil
	}
	if err := walk(root["Pages"], 0); err != nil {
		return nil, err
	}
	return out, nil
}
