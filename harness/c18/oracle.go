package main

// Whole-PDF oracle: lay out text with the bundled fonts, render it with the real PDF back-end, read
// the file back with the independent reader and judge the property glyph by glyph.

import (
	"bytes"
	"fmt"
	"math"
	"os"
	"sort"
	"strings"

	"github.com/tdewolff/canvas"
	"github.com/tdewolff/canvas/renderers/pdf"
	canvasText "github.com/tdewolff/canvas/text"
	"github.com/tdewolff/font"
	"verifharness/hc"
)

type textObj struct {
	fontName string
	size     float64
	arr      pArr
	hasTJ    bool
	ops      []string
}

// plain: one positioning operator at most, then a single TJ; no text rise, no other show operator
func (t textObj) plain() bool {
	pos, tj := 0, 0
	for _, op := range t.ops {
		switch op {
		case "Td", "TD", "Tm", "T*":
			pos++
			if tj > 0 {
				return false
			}
		case "TJ":
			tj++
		case "Ts", "Tj", "'", "\"":
			return false
		}
	}
	return pos <= 1 && tj == 1
}

// contentTextObjects extracts the BT … ET objects of a content stream.
func contentTextObjects(data []byte) ([]textObj, error) {
	l := &pLexer{b: data}
	var stack []any
	var objs []textObj
	var cur *textObj
	fontName, fontSize := "", 0.0 // text state persists across text objects (§9.3.1)
	for {
		t, err := l.next()
		if err != nil {
			break
		}
		op, isOp := t.(pOp)
		if !isOp {
			stack = append(stack, t)
			continue
		}
		if cur != nil {
			cur.ops = append(cur.ops, string(op))
		}
		switch op {
		case "BT":
			cur = &textObj{fontName: fontName, size: fontSize}
		case "ET":
			if cur == nil {
				return nil, fmt.Errorf("ET without BT")
			}
			objs = append(objs, *cur)
			cur = nil
		case "Tf":
			if cur != nil && len(stack) >= 2 {
				if n, ok := stack[len(stack)-2].(pName); ok {
					cur.fontName, fontName = string(n), string(n)
				}
				if s, ok := stack[len(stack)-1].(float64); ok {
					cur.size, fontSize = s, s
				}
			}
		case "TJ":
			if cur != nil && len(stack) >= 1 {
				if a, ok := stack[len(stack)-1].(pArr); ok {
					if cur.hasTJ {
						return nil, fmt.Errorf("two TJ in one text object")
					}
					cur.arr, cur.hasTJ = a, true
				}
			}
		}
		stack = stack[:0]
	}
	if cur != nil {
		return nil, fmt.Errorf("unterminated text object")
	}
	return objs, nil
}

type docItem struct {
	Font    string  `json:"font"`
	Size    float64 `json:"size_pt"`
	Text    string  `json:"text"`
	Kind    string  `json:"kind"` // line | box | vertical-upright | vertical-natural
	Width   float64 `json:"width,omitempty"`
	Align   string  `json:"align,omitempty"`
	Variant string  `json:"variant,omitempty"`
	fontIdx int
	variant canvas.FontVariant
	halign  canvas.TextAlign
}

type docSpec struct {
	Reused   bool      `json:"font_objects_reused_from_previous_document,omitempty"`
	Subset   bool      `json:"subset"`
	Compress bool      `json:"compress"`
	Items    []docItem `json:"items"`
}

type expSpan struct {
	font   *canvas.Font
	glyphs []canvasText.Glyph
	vert   bool
	item   int
	width  float64 // TextSpan.Width
	mmEm   float64 // face.MmPerEm
}

var pdfFontNames = []string{"DejaVuSerif.ttf", "EBGaramond12-Regular.otf", "Dynalight-Regular.otf"}

var textPool = []string{
	"Hello", "AVATAR To Wave", "office ffl fi", "ÿĀ", "þÿĀā", "naïve café",
	"Ελληνικά", "Привет мир", "1234567890", "(paren) \\ back",
	"AV. T, Yo", "é ä", "ǾǿȀȁ", "The quick brown fox jumps over the lazy dog",
	"WAVE Type Tomorrow", "üýþÿĀāĂ", "x", "q\u0323\u0301 x", "e\u0301a\u0308", "A\u030A B",
}

func genText(c *hc.Ctx, f *canvas.Font) string {
	if c.Chance(0.45) {
		return textPool[c.Intn(len(textPool))]
	}
	ranges := [][2]int{{0x20, 0x7E}, {0xA1, 0x17F}, {0xF8, 0x108}, {0x1F8, 0x208}, {0x370, 0x3FF}, {0x400, 0x45F}, {0x1E00, 0x1EFF}, {0x2010, 0x2030}}
	n := 1 + c.Intn(24)
	if c.Chance(0.1) {
		n = 100 + c.Intn(200)
	}
	if c.Chance(0.05) {
		// more than 229 distinct glyphs: the CFF subsetter gives up and writeFont falls back to the full font
		var rs []rune
		for u := 0x21 + c.Intn(40); len(rs) < 300 && u < 0x2100; u++ {
			if f.SFNT.GlyphIndex(rune(u)) != 0 {
				rs = append(rs, rune(u))
				if len(rs)%37 == 0 {
					rs = append(rs, ' ')
				}
			}
		}
		return string(rs)
	}
	var rs []rune
	for len(rs) < n {
		r := ranges[c.Intn(len(ranges))]
		u := r[0] + c.Intn(r[1]-r[0]+1)
		run := 1 + c.Intn(6)
		for i := 0; i < run && len(rs) < n; i++ {
			if f.SFNT.GlyphIndex(rune(u+i)) != 0 {
				rs = append(rs, rune(u+i))
			}
		}
		if c.Chance(0.2) {
			rs = append(rs, ' ')
		}
		if len(rs) == 0 && c.Chance(0.01) {
			rs = append(rs, 'a')
		}
	}
	return strings.TrimSpace(string(rs)) + "."
}

var fontBytes = map[string][]byte{}

func freshFamilies() []*canvas.FontFamily {
	fams := make([]*canvas.FontFamily, len(pdfFontNames))
	for i, n := range pdfFontNames {
		if fontBytes[n] == nil {
			b, err := os.ReadFile(repoDir() + "/resources/" + n)
			if err != nil {
				panic(err)
			}
			fontBytes[n] = b
		}
		fams[i] = canvas.NewFontFamily(n)
		if err := fams[i].LoadFont(bytes.Clone(fontBytes[n]), 0, canvas.FontRegular); err != nil {
			panic(err)
		}
	}
	return fams
}

func genSpec(c *hc.Ctx, ref []*canvas.Font) docSpec {
	spec := docSpec{Subset: c.Chance(0.65), Compress: c.Bool()}
	nItems := 1 + c.Intn(3)
	f0 := c.Intn(len(ref))
	for k := 0; k < nItems; k++ {
		fi := f0
		if c.Chance(0.3) {
			fi = c.Intn(len(ref))
		}
		item := docItem{Font: pdfFontNames[fi], fontIdx: fi, Size: float64(6 + c.Intn(30)), Text: genText(c, ref[fi])}
		switch r := c.Float(); {
		case r < 0.45:
			item.Kind = "line"
		case r < 0.8:
			item.Kind = "box"
			item.Width = float64(30 + c.Intn(120))
			item.halign = []canvas.TextAlign{canvas.Left, canvas.Right, canvas.Center, canvas.Justify}[c.Intn(4)]
			item.Align = fmt.Sprint(item.halign)
		case r < 0.92:
			item.Kind = "vertical-upright"
		default:
			item.Kind = "vertical-natural"
		}
		if c.Chance(0.1) {
			item.variant = []canvas.FontVariant{canvas.FontSubscript, canvas.FontSuperscript}[c.Intn(2)]
			item.Variant = item.variant.String()
		}
		spec.Items = append(spec.Items, item)
	}
	return spec
}

func genPDF(c *hc.Ctx) {
	// pristine reference copies: never handed to the renderer, only read by the oracle
	ref := make([]*canvas.Font, len(pdfFontNames))
	for i, n := range pdfFontNames {
		ref[i] = loadFont(n)
	}
	docs := c.N / 2
	if docs < 20 {
		docs = 20
	}
	for it := 0; it < docs; it++ {
		fams := freshFamilies() // every document starts from freshly parsed fonts
		spec := genSpec(c, ref)
		checkDoc(c, fams, ref, spec)
		if it == 0 {
			c.Sample(fmt.Sprintf("PDF %+v", spec))
		}
		if c.Chance(0.15) {
			// a second (and sometimes third) document with the SAME font objects: rendering must leave the
			// loaded fonts untouched (regression class of /repo 027bf2b)
			for rep := 0; rep < 1+c.Intn(2); rep++ {
				spec2 := genSpec(c, ref)
				spec2.Reused = true
				c.Count("pdf:later-document-same-font-objects")
				checkDoc(c, fams, ref, spec2)
			}
		}
	}
}

func layout(fonts []*canvas.FontFamily, it docItem) *canvas.Text {
	face := fonts[it.fontIdx].Face(it.Size, canvas.Black, canvas.FontRegular, it.variant)
	switch it.Kind {
	case "line":
		return canvas.NewTextLine(face, it.Text, canvas.Left)
	case "box":
		return canvas.NewTextBox(face, it.Text, it.Width, 0, it.halign, canvas.Top, 0, 0)
	}
	rt := canvas.NewRichText(face)
	rt.SetWritingMode(canvas.VerticalRL)
	if it.Kind == "vertical-upright" {
		rt.SetTextOrientation(canvas.Upright)
	}
	rt.WriteString(it.Text)
	return rt.ToText(0, 0, canvas.Left, canvas.Top, 0, 0)
}

func checkDoc(c *hc.Ctx, fonts []*canvas.FontFamily, ref []*canvas.Font, spec docSpec) {
	fail := func(kind, desc string) { failK(c, kind, desc, spec) }
	var buf bytes.Buffer
	var exp []expSpan
	var placement []string
	nVertPath := 0
	usedH, usedV := map[*canvas.Font]bool{}, map[*canvas.Font]bool{}
	if msg := hc.Try(func() {
		cv := canvas.New(210, 297)
		ctx := canvas.NewContext(cv)
		y := 280.0
		for k, it := range spec.Items {
			t := layout(fonts, it)
			t.WalkSpans(func(_, _ float64, span canvas.TextSpan) {
				if span.IsText() {
					v := span.Direction == canvasText.TopToBottom || span.Direction == canvasText.BottomToTop
					exp = append(exp, expSpan{span.Face.Font, span.Glyphs, v, k, span.Width, span.Face.MmPerEm})
					if span.Face.FauxBold == 0 && span.Face.FauxItalic == 0 {
						// what RenderAsPath draws for this span: every outline at face offset + prefix sums of the
						// laid-out advances (x and y), judged against the pristine copy of the font
						if bad := spanPathPlacement(span, ref[it.fontIdx].SFNT); bad != "" {
							placement = append(placement, fmt.Sprintf("item %d (%s) span %q: %s", k, it.Kind, span.Text, bad))
						}
						if v {
							nVertPath++
						}
					}
					if v {
						usedV[span.Face.Font] = true
					} else {
						usedH[span.Face.Font] = true
					}
				}
			})
			ctx.DrawText(10+float64(60*(k%3)), y, t)
			y -= 20
		}
		p := pdf.New(&buf, 210, 297, &pdf.Options{Compress: spec.Compress, SubsetFonts: spec.Subset})
		cv.RenderTo(p)
		if err := p.Close(); err != nil {
			panic(err)
		}
	}); msg != "" {
		fail("panic:render", msg)
		return
	}
	c.Evals++
	c.Hist["pdf:vertical span path placement judged"] += nVertPath
	for _, bad := range placement {
		fail("topath-placement", bad)
	}
	// a font used in both writing directions has two font objects that share one subsetter; Close
	// subsets the font once per object (each on a private copy since /repo 027bf2b)
	for f := range usedV {
		if usedH[f] {
			c.Count("pdf:same-font-H-and-V")
			if spec.Subset && f.SFNT.IsCFF {
				c.Count("pdf:CFF font subset twice in one document")
			}
		}
	}
	pf, err := openPDF(buf.Bytes())
	if err != nil {
		fail("pdf-unreadable", err.Error())
		return
	}
	pages, err := pf.Pages()
	if err != nil || len(pages) != 1 {
		fail("pdf-unreadable", fmt.Sprintf("pages: %v (%d)", err, len(pages)))
		return
	}
	content, err := pf.StreamData(pages[0]["Contents"])
	if err != nil {
		fail("pdf-unreadable", "contents: "+err.Error())
		return
	}
	objs, err := contentTextObjects(content)
	if err != nil {
		fail("pdf-unreadable", err.Error())
		return
	}
	if len(objs) != len(exp) {
		fail("text-objects", fmt.Sprintf("%d text objects for %d laid-out spans", len(objs), len(exp)))
		return
	}
	res, _ := pf.Dict(pages[0]["Resources"])
	var fontRes pDict
	if res != nil {
		fontRes, _ = pf.Dict(res["Font"])
	}
	infos := map[string]*fontInfo{}
	// raw observation per font object for the Lean-side verdict (FV lines)
	type codeObs struct{ adv, uni int }
	fvObs := map[string]map[int]codeObs{}
	fvUpm := map[string]int{}
	fvSkip := map[string]bool{}
	cffMapReported := map[string]bool{}
	type gk struct {
		name string
		code int
		id   uint16
	}
	outlineOK := map[gk]string{}
	c.Count(fmt.Sprintf("pdf:subset=%v", spec.Subset))
	for i, ob := range objs {
		sp := exp[i]
		c.Count("pdf:item " + spec.Items[sp.item].Kind)
		src := ref[spec.Items[sp.item].fontIdx].SFNT // pristine copy of the span's font
		resetClass := ""                             // no recorded defect class attaches a suffix any more; kept for future narrow classes
		upm := int(src.Head.UnitsPerEm)
		fi := infos[ob.fontName]
		if fi == nil {
			if fontRes == nil || fontRes[ob.fontName] == nil {
				fail("font-resource", "text object selects /"+ob.fontName+" which is not in the page resources")
				return
			}
			fi, err = readFont(pf, fontRes[ob.fontName])
			if err == nil && fi.ProgErr != nil && fi.ProgRaw != nil {
				// tdewolff/font cannot re-read its own CFF subsets in embedded mode (parseCmap wants maxp):
				// lend the two tables the non-embedded parser insists on
				if b := lendTables(fi.ProgRaw, src, "name", "post"); b != nil {
					fi.Program, fi.ProgErr = font.ParseSFNT(b, 0)
				}
			}
			if err != nil {
				fail("font-dict", "/"+ob.fontName+": "+err.Error())
				return
			}
			if fi.Program == nil || fi.ProgErr != nil {
				kind := "font-program" + resetClass
				if resetClass == "" && spec.Subset && src.IsCFF && fi.ProgErr != nil && strings.HasPrefix(fi.ProgErr.Error(), "CFF: ") {
					// recorded third-party class: the CFF table written by the subsetter is internally inconsistent
					kind = "font-program:cff-subset-unreadable"
				}
				fail(kind, fmt.Sprintf("/%s: embedded font program does not parse: %v", ob.fontName, fi.ProgErr))
				return
			}
			infos[ob.fontName] = fi
			if src.IsTrueType {
				c.Count("pdf:font TrueType")
			} else {
				c.Count("pdf:font CFF")
			}
			if fi.MaxBlock > 100 {
				c.Count("pdf:ToUnicode block>100 entries (not judged)")
			}
		}
		if sz := sp.glyphs0Size(); sz != 0 && math.Abs(ob.size-sz) > 1e-4*(1+ob.size) {
			fail("font-size", fmt.Sprintf("Tf size %v, face size %v mm", ob.size, sz))
		}
		if spec.Subset && fi.Program.NumGlyphs() == src.NumGlyphs() && src.NumGlyphs() > 1 {
			// Subset failed ("WARNING: font subsetting failed"): the full program is embedded and the font object
			// must look like an unsubsetted one (regression class of /repo 788048f: cidtogid-presence below)
			c.Count("pdf:subsetting failed, full program embedded")
		}
		// span width = the face's scale times the summed advances (what TextWidth measures)
		units := int64(0)
		for _, g := range sp.glyphs {
			if !g.Vertical {
				units += int64(g.XAdvance)
			} else {
				units -= int64(g.YAdvance)
			}
		}
		if want := sp.mmEm * float64(units); math.Abs(sp.width-want) > 1e-9*(1+math.Abs(want)) {
			fail("span-width", fmt.Sprintf("span %d: TextSpan.Width %v, glyph advances sum to %v mm", i, sp.width, want))
		}
		codes, adj, lead, err := tjItems(ob.arr)
		if err != nil || lead != 0 {
			fail("tj-unreadable"+resetClass, fmt.Sprintf("span %d: %v (leading adjustment %v)", i, err, lead))
			continue
		}
		if len(codes) != len(sp.glyphs) {
			fail("tj-codes"+resetClass, fmt.Sprintf("span %d: %d codes for %d glyphs", i, len(codes), len(sp.glyphs)))
			continue
		}
		// writing mode of the font object
		wantEnc := "Identity-H"
		if sp.vert {
			wantEnc = "Identity-V"
			c.Count("pdf:vertical-span")
		}
		encOK := fi.Encoding == wantEnc
		if !encOK {
			if sp.vert && fi.Encoding == "Identity-H" {
				fail("vertical-font-written-identity-h", fmt.Sprintf("span %d is laid out top-to-bottom but its font object /%s has /Encoding /%s: a reader advances horizontally", i, ob.fontName, fi.Encoding))
			} else {
				fail("font-encoding"+resetClass, fmt.Sprintf("span %d: /Encoding /%s, want /%s", i, fi.Encoding, wantEnc))
			}
		}
		for k, g := range sp.glyphs {
			code := codes[k]
			c.Count("pdf:glyphs")
			// 1. which glyph of the embedded program does the code select
			gid := code
			if fi.HasMap {
				if code >= len(fi.CIDToGID) {
					fail("glyph-mismatch"+resetClass, fmt.Sprintf("span %d glyph %d: code %d beyond CIDToGIDMap (%d entries)", i, k, code, len(fi.CIDToGID)))
					break
				}
				gid = int(fi.CIDToGID[code])
			}
			// the CIDToGIDMap stream must be there exactly when the embedded program is the full font
			// (SubsetFonts off, or a subsetting failure that fell back to the full program)
			full := fi.Program.NumGlyphs() == src.NumGlyphs() && src.NumGlyphs() > 1
			if fi.HasMap != full && resetClass == "" {
				fail("cidtogid-presence", fmt.Sprintf("subset=%v, embedded program has %d of %d glyphs, CIDToGIDMap stream present=%v", spec.Subset, fi.Program.NumGlyphs(), src.NumGlyphs(), fi.HasMap))
				return
			}
			if fi.HasMap && fi.Subtype != "CIDFontType2" && !cffMapReported[ob.fontName] {
				// Table 117: CIDToGIDMap is "Type 2 CIDFonts only"; for a CIDFontType0 with a name-keyed CFF the
				// CID is the glyph index (9.7.4.2), so a conforming reader ignores the stream
				cffMapReported[ob.fontName] = true
				cffGid := code
				if why := compareGlyph(src, g.ID, fi.Program, cffGid); why != "" {
					fail("glyph-mismatch:cidtogidmap-on-cidfonttype0", fmt.Sprintf("span %d glyph %d (source glyph %d %q): /Subtype /%s carries a CIDToGIDMap, which only applies to CIDFontType2; a conforming reader takes code %04X as glyph index %d of the embedded CFF: %s (with the stream applied it would be glyph %d)", i, k, g.ID, string(g.Text), fi.Subtype, code, cffGid, why, gid))
				}
			}
			key := gk{ob.fontName, code, g.ID}
			verdict, seen := outlineOK[key]
			if !seen {
				verdict = compareGlyph(src, g.ID, fi.Program, gid)
				outlineOK[key] = verdict
				c.Distinct(fmt.Sprintf("%s %v %d", spec.Items[sp.item].Font, spec.Subset, g.ID))
			}
			if verdict != "" && g.ID == 0 && gid == 0 && spec.Subset && strings.HasSuffix(verdict, " vs 0 path values)") {
				// tdewolff/font's Subset deliberately writes an empty .notdef
				fail("glyph-mismatch:notdef-emptied-by-subsetter", fmt.Sprintf("span %d glyph %d: unmapped character %q is drawn with the source font's .notdef outline by the path renderer, the embedded subset has an empty .notdef: %s", i, k, string(g.Text), verdict))
				verdict = ""
			}
			if verdict != "" {
				fail("glyph-mismatch"+resetClass, fmt.Sprintf("span %d glyph %d (source glyph %d %q): code %04X selects embedded glyph %d: %s", i, k, g.ID, string(g.Text), code, gid, verdict))
				break
			}
			// 2. width array
			orig := int(src.GlyphAdvance(g.ID))
			if resetClass != "" {
				fvSkip[ob.fontName] = true
			} else {
				if fvObs[ob.fontName] == nil {
					fvObs[ob.fontName] = map[int]codeObs{0: {int(src.GlyphAdvance(0)), -1}}
					fvUpm[ob.fontName] = upm
				}
				u := -1
				if g.ID != 0 {
					if r := src.Cmap.ToUnicode(g.ID); r != 0 {
						u = int(r)
					}
				}
				fvObs[ob.fontName][code] = codeObs{orig, u}
			}
			wantW := (2000*orig + upm) / (2 * upm)
			gotW := lookupW(fi.DW, fi.W, code)
			if gotW != wantW {
				fail("w-width"+resetClass, fmt.Sprintf("span %d glyph %d: W gives %d for code %04X, advance %d/%d em is %d", i, k, gotW, code, orig, upm, wantW))
				break
			}
			// 3. ToUnicode
			if g.ID == 0 {
				c.Count("pdf:.notdef glyph (character not in the font; ToUnicode not judged)")
			} else if u := src.Cmap.ToUnicode(g.ID); u != 0 {
				got, why := tuLookup(fi.Ranges, fi.Chars, code)
				if why == "range-last-byte-overflow" {
					fail("tounicode-range-crosses-low-byte", fmt.Sprintf("span %d glyph %d: code %04X (U+%04X) lies in a bfrange whose last byte is incremented past 255: %s", i, k, code, u, tuCanon(fi.Ranges, fi.Chars)))
				} else if why != "" || got != u {
					fail("tounicode"+resetClass, fmt.Sprintf("span %d glyph %d: code %04X should read U+%04X, strict reader gives %q U+%04X", i, k, code, u, why, got))
					break
				}
			} else {
				c.Count("pdf:glyph-without-cmap-entry (ToUnicode not judged)")
			}
			// 4. pen advance
			if !encOK {
				continue
			}
			if !g.Vertical {
				dx := int(g.XAdvance) - orig
				if dx == 0 {
					if adj[k] != 0 {
						fail("pen-advance"+resetClass, fmt.Sprintf("span %d glyph %d has its font advance but TJ adjusts by %v", i, k, adj[k]))
					}
				} else {
					c.Count("pdf:adjusted-advance")
					if !tjDriftOK(adj[k], dx, upm) {
						fail("pen-advance"+resetClass, fmt.Sprintf("span %d glyph %d: advance %d = font %d %+d units, TJ %v", i, k, g.XAdvance, orig, dx, adj[k]))
					}
				}
				if g.XOffset != 0 || g.YOffset != 0 {
					if kind := spec.Items[sp.item].Kind; (kind == "line" || kind == "box") && ob.plain() {
						// the text object is one TJ array of strings and numbers (no Ts, no Td inside): every
						// glyph origin sits on the pen, nothing carries the shaper's offset
						fail("glyph-offset-dropped-in-pdf", fmt.Sprintf("span %d glyph %d (%q, source glyph %d) is laid out at offset (%d,%d)/%d em from the pen (path rendering applies it); the PDF text object draws it at the pen", i, k, string(g.Text), g.ID, g.XOffset, g.YOffset, upm))
					} else {
						c.Count("pdf:glyph-offset-in-vertical-mode (placement not judged)")
					}
				}
			} else {
				// Identity-V without W2/DW2: default vertical displacement -1000
				dy := int(g.YAdvance) + upm
				if dy == 0 {
					if adj[k] != 0 {
						fail("pen-advance-vertical", fmt.Sprintf("span %d glyph %d: TJ %v for the default vertical advance", i, k, adj[k]))
					}
				} else if !tjDriftOK(adj[k], dy, upm) {
					fail("pen-advance-vertical", fmt.Sprintf("span %d glyph %d: YAdvance %d, TJ %v", i, k, g.YAdvance, adj[k]))
				}
			}
		}
	}
	// Lean decides on the font tables from the raw observation (theorem C18.fontVerdict_sound)
	names := make([]string, 0, len(fvObs))
	for n := range fvObs {
		names = append(names, n)
	}
	sort.Strings(names)
	for _, n := range names {
		obs, fi := fvObs[n], infos[n]
		if fvSkip[n] || fi == nil {
			continue
		}
		dense := true
		for k := 0; k < len(obs); k++ {
			if _, ok := obs[k]; !ok {
				dense = false
			}
		}
		if !dense || len(obs) > 400 {
			c.Count("pdf:FV skipped (unused code or >400 codes)")
			continue
		}
		var line strings.Builder
		fmt.Fprintf(&line, "FV %d %d", fvUpm[n], len(obs))
		for k := 0; k < len(obs); k++ {
			fmt.Fprintf(&line, " %d %d", obs[k].adv, obs[k].uni)
		}
		fmt.Fprintf(&line, " | %s | %s", wCanon(fi.DW, fi.W), tuCanon(fi.Ranges, fi.Chars))
		c.Case(line.String(), "=", "ok")
		c.Count("pdf:font objects judged by the Lean verdict")
	}
}

func (sp expSpan) glyphs0Size() float64 {
	if len(sp.glyphs) > 0 {
		return sp.glyphs[0].Size
	}
	return 0
}

// compareGlyph: same outline and same advance in the embedded program as in the source font.
func compareGlyph(src *font.SFNT, id uint16, emb *font.SFNT, gid int) string {
	if gid < 0 || gid >= int(emb.NumGlyphs()) {
		return fmt.Sprintf("embedded program has only %d glyphs", emb.NumGlyphs())
	}
	a, b := &canvas.Path{}, &canvas.Path{}
	if err := src.GlyphPath(a, id, 0, 0, 0, 1, font.NoHinting); err != nil {
		return "source outline: " + err.Error()
	}
	if err := emb.GlyphPath(b, uint16(gid), 0, 0, 0, 1, font.NoHinting); err != nil {
		return "embedded outline: " + err.Error()
	}
	da, db := a.Data(), b.Data()
	if len(da) != len(db) {
		return fmt.Sprintf("outline differs (%d vs %d path values)", len(da), len(db))
	}
	for i := range da {
		if math.Abs(da[i]-db[i]) > 1e-9 {
			return fmt.Sprintf("outline differs at value %d (%v vs %v)", i, da[i], db[i])
		}
	}
	if x, y := src.GlyphAdvance(id), emb.GlyphAdvance(uint16(gid)); x != y {
		return fmt.Sprintf("advance differs (%d vs %d)", x, y)
	}
	return ""
}

// lendTables rebuilds an SFNT file from the tables of emb plus the named tables of src (if absent).
func lendTables(emb []byte, src *font.SFNT, tags ...string) []byte {
	if len(emb) < 12 {
		return nil
	}
	be16 := func(b []byte) int { return int(b[0])<<8 | int(b[1]) }
	be32 := func(b []byte) int { return int(b[0])<<24 | int(b[1])<<16 | int(b[2])<<8 | int(b[3]) }
	n := be16(emb[4:])
	if len(emb) < 12+16*n {
		return nil
	}
	type tab struct {
		tag  string
		data []byte
	}
	var tabs []tab
	have := map[string]bool{}
	for i := 0; i < n; i++ {
		e := emb[12+16*i:]
		off, ln := be32(e[8:]), be32(e[12:])
		if off+ln > len(emb) {
			return nil
		}
		tabs = append(tabs, tab{string(e[:4]), emb[off : off+ln]})
		have[string(e[:4])] = true
	}
	for _, t := range tags {
		if !have[t] {
			if d, ok := src.Tables[t]; ok {
				tabs = append(tabs, tab{t, d})
			}
		}
	}
	sort.Slice(tabs, func(i, j int) bool { return tabs[i].tag < tabs[j].tag })
	out := append([]byte{}, emb[:4]...)
	put16 := func(v int) { out = append(out, byte(v>>8), byte(v)) }
	put32 := func(v int) { out = append(out, byte(v>>24), byte(v>>16), byte(v>>8), byte(v)) }
	put16(len(tabs))
	put16(0)
	put16(0)
	put16(0)
	off := 12 + 16*len(tabs)
	for _, t := range tabs {
		out = append(out, t.tag...)
		put32(0)
		put32(off)
		put32(len(t.data))
		off += (len(t.data) + 3) &^ 3
	}
	for _, t := range tabs {
		out = append(out, t.data...)
		for len(out)%4 != 0 {
			out = append(out, 0)
		}
	}
	return out
}

// spanPathPlacement runs the real toPath on a laid-out span and compares with the outlines of the
// pristine font placed at offset + prefix sums of ALL glyph advances (whitespace included).
func spanPathPlacement(span canvas.TextSpan, src *font.SFNT) string {
	face := span.Face
	p, _, err := canvas.VerifC18ToPath(face, span.Glyphs, face.PPEM(canvas.DefaultResolution))
	if err != nil {
		return "toPath: " + err.Error()
	}
	exp := &canvas.Path{}
	f := face.MmPerEm
	x, y := int64(face.XOffset), int64(face.YOffset)
	spaces := 0
	for _, g := range span.Glyphs {
		own := &canvas.Path{}
		src.GlyphPath(own, g.ID, 0, 0, 0, 1, font.NoHinting)
		if len(own.Data()) == 0 {
			spaces++
		}
		src.GlyphPath(exp, g.ID, 0, f*float64(x+int64(g.XOffset)), f*float64(y+int64(g.YOffset)), f, font.NoHinting)
		x += int64(g.XAdvance)
		y += int64(g.YAdvance)
	}
	a, b := p.Data(), exp.Data()
	if len(a) != len(b) {
		return fmt.Sprintf("path has %d values, expected %d", len(a), len(b))
	}
	for i := range a {
		if math.Abs(a[i]-b[i]) > 1e-9*(1+math.Abs(b[i])) {
			return fmt.Sprintf("path value %d is %v, outline at the summed advances gives %v (%d glyphs, %d without outline)", i, a[i], b[i], len(span.Glyphs), spaces)
		}
	}
	return ""
}
