package main

// Multi-face histories: several faces of ONE loaded font with nearby sizes (well below one pixel
// per em apart) are converted to paths within one process, in varying orders. Judged:
//   - every face's outlines sit at offset + preceding advances at THAT face's scale (expectation built
//     from a pristine second copy of the font with GlyphPath at independently summed positions),
//   - outline(face B) = sizeB/sizeA · outline(face A) about the origin, bounding boxes scale linearly,
//   - results do not depend on which faces were converted before (same query on a freshly loaded font
//     object in another order is bit-identical),
//   - the same through Text.RenderAsPath at a low resolution,
//   - correspondence PATH: integer scales, same ppem, all outline points against the Lean model
//     (C18.toPath_scale_linear is a theorem about that model).

import (
	"fmt"
	"math"
	"os"
	"sort"
	"strconv"
	"strings"

	"image"

	"github.com/tdewolff/canvas"
	canvasText "github.com/tdewolff/canvas/text"
	"github.com/tdewolff/font"
	"verifharness/hc"
)

var faceFontBytes = map[string][]byte{}

func freshFont(name string) *canvas.Font {
	if faceFontBytes[name] == nil {
		b, err := os.ReadFile(repoDir() + "/resources/" + name)
		if err != nil {
			panic(err)
		}
		faceFontBytes[name] = b
	}
	f, err := canvas.LoadFont(append([]byte{}, faceFontBytes[name]...), 0, canvas.FontRegular)
	if err != nil {
		panic(err)
	}
	return f
}

// pathPoints returns every coordinate pair of a glyph path (M/L/Q/C/z only) in order.
func pathPoints(d []float64) ([][2]float64, bool) {
	var pts [][2]float64
	for i := 0; i < len(d); {
		var n int
		switch d[i] {
		case canvas.MoveToCmd, canvas.LineToCmd, canvas.CloseCmd:
			n = 1
		case canvas.QuadToCmd:
			n = 2
		case canvas.CubeToCmd:
			n = 3
		default:
			return nil, false
		}
		if i+2*n+1 >= len(d) {
			return nil, false
		}
		for k := 0; k < n; k++ {
			pts = append(pts, [2]float64{d[i+1+2*k], d[i+2+2*k]})
		}
		i += 2*n + 2
	}
	return pts, true
}

func bbox(pts [][2]float64) (x0, y0, x1, y1 float64) {
	x0, y0, x1, y1 = math.Inf(1), math.Inf(1), math.Inf(-1), math.Inf(-1)
	for _, p := range pts {
		x0, y0 = math.Min(x0, p[0]), math.Min(y0, p[1])
		x1, y1 = math.Max(x1, p[0]), math.Max(y1, p[1])
	}
	return
}

// expectedPath: outlines of the pristine font at offset + prefix sums, scale f.
func expectedPath(src *font.SFNT, f float64, xo, yo int32, glyphs []canvasText.Glyph) *canvas.Path {
	exp := &canvas.Path{}
	x, y := int64(xo), int64(yo)
	for _, g := range glyphs {
		src.GlyphPath(exp, g.ID, 0, f*float64(x+int64(g.XOffset)), f*float64(y+int64(g.YOffset)), f, font.NoHinting)
		x += int64(g.XAdvance)
		y += int64(g.YAdvance)
	}
	return exp
}

func sameData(a, b []float64, rel float64) (bool, string) {
	if len(a) != len(b) {
		return false, fmt.Sprintf("%d path values, expected %d", len(a), len(b))
	}
	for i := range a {
		if math.Abs(a[i]-b[i]) > rel*(1+math.Abs(b[i])) {
			return false, fmt.Sprintf("path value %d is %v, expected %v", i, a[i], b[i])
		}
	}
	return true, ""
}

type recRenderer struct {
	paths []*canvas.Path
	ms    []canvas.Matrix
}

func (r *recRenderer) Size() (float64, float64) { return 1000, 1000 }
func (r *recRenderer) RenderPath(p *canvas.Path, _ canvas.Style, m canvas.Matrix) {
	r.paths = append(r.paths, p.Copy())
	r.ms = append(r.ms, m)
}
func (r *recRenderer) RenderText(*canvas.Text, canvas.Matrix) {}
func (r *recRenderer) RenderImage(image.Image, canvas.Matrix) {}

var faceTexts = []string{"Hamburgefonts", "AVATAR To Wave", "The quick brown fox", "xyz", "naïve café", "Ελληνικά", "Привет", "1234567890", "office ffl", "W"}

func nearbySizes(c *hc.Ctx) []float64 {
	s := []float64{6, 8, 9.5, 10, 10.6, 11, 12, 14, 17.3, 24, 36}[c.Intn(11)]
	sizes := []float64{s}
	n := 2 + c.Intn(4)
	for len(sizes) < n {
		switch c.Intn(6) {
		case 0:
			sizes = append(sizes, s+0.3)
		case 1:
			sizes = append(sizes, s*1.02)
		case 2:
			sizes = append(sizes, s-0.2)
		case 3:
			sizes = append(sizes, s*(1+0.001*float64(1+c.Intn(30))))
		case 4:
			sizes = append(sizes, s+0.05*float64(1+c.Intn(8)))
		case 5:
			sizes = append(sizes, s+float64(1+c.Intn(3))) // far apart as well
		}
	}
	return sizes
}

func perm(c *hc.Ctx, n int) []int {
	p := make([]int, n)
	for i := range p {
		p[i] = i
	}
	for i := n - 1; i > 0; i-- {
		j := c.Intn(i + 1)
		p[i], p[j] = p[j], p[i]
	}
	return p
}

func genFaces(c *hc.Ctx) {
	names := []string{"DejaVuSerif.ttf", "EBGaramond12-Regular.otf", "Dynalight-Regular.otf"}
	ref := map[string]*canvas.Font{} // pristine copies: never go through FontFace.toPath
	for _, n := range names {
		ref[n] = freshFont(n)
	}
	hist := c.N / 4
	if hist < 12 {
		hist = 12
	}
	for it := 0; it < hist; it++ {
		name := names[c.Intn(len(names))]
		src := ref[name].SFNT
		sizes := nearbySizes(c)
		str := faceTexts[c.Intn(len(faceTexts))]
		if src.IsTrueType {
			c.Count("faces:history TrueType")
		} else {
			c.Count("faces:history CFF")
		}
		c.Count(fmt.Sprintf("faces:faces-per-history %d", len(sizes)))
		replay := map[string]any{"font": name, "text": str, "sizes_pt": sizes}

		// two runs on two freshly loaded font objects, different orders (with repeats in the first)
		type res struct {
			data   []float64
			width  float64
			tw     float64
			glyphs []canvasText.Glyph
			mmEm   float64
			rap    [][]float64 // RenderAsPath paths
		}
		run := func(order []int, withRAP bool) (map[int]res, string) {
			f := freshFont(name)
			out := map[int]res{}
			for _, k := range order {
				face := f.Face(sizes[k], canvas.Black)
				var r res
				var err error
				var p *canvas.Path
				if msg := hc.Try(func() {
					r.glyphs = face.Glyphs(str)
					p, r.width, err = face.ToPath(str)
					r.tw = face.TextWidth(str)
				}); msg != "" || err != nil {
					return nil, fmt.Sprint("ToPath: ", msg, err)
				}
				r.data, r.mmEm = append([]float64{}, p.Data()...), face.MmPerEm
				if withRAP {
					rec := &recRenderer{}
					t := canvas.NewTextLine(face, str, canvas.Left)
					var spans []canvas.TextSpan
					t.WalkSpans(func(_, _ float64, sp canvas.TextSpan) { spans = append(spans, sp) })
					resl := []canvas.Resolution{canvas.DPMM(1), canvas.DPMM(2), canvas.DefaultResolution}[c.Intn(3)]
					if msg := hc.Try(func() { t.RenderAsPath(rec, canvas.Identity, resl) }); msg != "" {
						return nil, "RenderAsPath: " + msg
					}
					if len(rec.paths) != len(spans) {
						return nil, fmt.Sprintf("RenderAsPath drew %d paths for %d spans", len(rec.paths), len(spans))
					}
					for i, sp := range spans {
						exp := expectedPath(src, sp.Face.MmPerEm, sp.Face.XOffset, sp.Face.YOffset, sp.Glyphs)
						if ok, why := sameData(rec.paths[i].Data(), exp.Data(), 1e-9); !ok {
							return nil, fmt.Sprintf("RenderAsPath (face %vpt, %v px/mm, after %d other conversions): span %d %s", sizes[k], resl.DPMM(), len(out), i, why)
						}
						r.rap = append(r.rap, rec.paths[i].Data())
					}
					c.Count("faces:RenderAsPath judged")
				}
				if prev, seen := out[k]; seen {
					// the same query again, after other faces were converted
					if ok, why := sameData(r.data, prev.data, 0); !ok {
						return nil, fmt.Sprintf("ToPath of the %vpt face changed after other faces were converted: %s", sizes[k], why)
					}
					c.Count("faces:repeated query")
				}
				out[k] = r
			}
			return out, ""
		}
		order1 := perm(c, len(sizes))
		order1 = append(order1, order1[c.Intn(len(order1))], order1[0])
		order2 := perm(c, len(sizes))
		if len(sizes) > 1 && order2[0] == order1[0] {
			order2[0], order2[len(order2)-1] = order2[len(order2)-1], order2[0]
		}
		c.Evals++
		replay["order"] = order1
		replay["second_order_on_fresh_font"] = order2
		r1, bad := run(order1, true)
		if bad != "" {
			failK(c, "topath-placement", bad, replay)
			continue
		}
		r2, bad := run(order2, false)
		if bad != "" {
			failK(c, "topath-placement", bad, replay)
			continue
		}
		c.Distinct(fmt.Sprintf("faces %s %s %v", name, str, sizes))
		failed := false
		for k, a := range r1 {
			// (1) placement at this face's own scale
			exp := expectedPath(src, a.mmEm, 0, 0, a.glyphs)
			if ok, why := sameData(a.data, exp.Data(), 1e-9); !ok {
				failK(c, "topath-placement", fmt.Sprintf("ToPath of the %vpt face (one of %d faces of one font): outlines are not this face's glyph outlines at the summed advances: %s", sizes[k], len(sizes), why), replay)
				failed = true
				break
			}
			// (2) independent of the order in which faces were used
			if ok, why := sameData(a.data, r2[k].data, 0); !ok {
				failK(c, "topath-order-dependent", fmt.Sprintf("ToPath of the %vpt face differs between call orders %v and %v: %s", sizes[k], order1, order2, why), replay)
				failed = true
				break
			}
			// (3) width = TextWidth = scale * advances
			x := int64(0)
			for _, g := range a.glyphs {
				x += int64(g.XAdvance)
			}
			if a.width != a.tw || math.Abs(a.width-a.mmEm*float64(x)) > 1e-9*(1+math.Abs(a.width)) {
				failK(c, "topath-width-vs-textwidth", fmt.Sprintf("%vpt face: ToPath width %v, TextWidth %v, advances %v", sizes[k], a.width, a.tw, a.mmEm*float64(x)), replay)
				failed = true
				break
			}
		}
		if failed {
			continue
		}
		// (4) linear scaling between the faces: outline(B) = sizeB/sizeA * outline(A), bbox likewise, and the
		// outline extent follows the advances (ink of the line lies within the advance box +- one em)
		keys := make([]int, 0, len(r1))
		for k := range r1 {
			keys = append(keys, k)
		}
		sort.Ints(keys)
		a := r1[keys[0]]
		pa, okA := pathPoints(a.data)
		for _, k := range keys[1:] {
			b := r1[k]
			if len(a.glyphs) != len(b.glyphs) {
				c.Count("faces:shaping differs between sizes (scaling not judged)")
				continue
			}
			same := true
			for i := range a.glyphs {
				ga, gb := a.glyphs[i], b.glyphs[i]
				if ga.ID != gb.ID || ga.XAdvance != gb.XAdvance || ga.YAdvance != gb.YAdvance || ga.XOffset != gb.XOffset || ga.YOffset != gb.YOffset {
					same = false
				}
			}
			if !same {
				c.Count("faces:shaping differs between sizes (scaling not judged)")
				continue
			}
			pb, okB := pathPoints(b.data)
			if !okA || !okB || len(pa) != len(pb) {
				failK(c, "topath-scale-linear", fmt.Sprintf("faces %vpt and %vpt: different path structure", sizes[keys[0]], sizes[k]), replay)
				break
			}
			ratio := sizes[k] / sizes[keys[0]]
			worst := 0.0
			for i := range pa {
				for d := 0; d < 2; d++ {
					if e := math.Abs(pb[i][d]-ratio*pa[i][d]) / (1 + math.Abs(pb[i][d])); e > worst {
						worst = e
					}
				}
			}
			ax0, ay0, ax1, ay1 := bbox(pa)
			bx0, by0, bx1, by1 := bbox(pb)
			bb := math.Max(math.Max(math.Abs(bx0-ratio*ax0), math.Abs(bx1-ratio*ax1)), math.Max(math.Abs(by0-ratio*ay0), math.Abs(by1-ratio*ay1)))
			c.Count("faces:scale-linearity judged")
			if worst > 1e-9 || bb > 1e-9*(1+math.Abs(bx1)) {
				failK(c, "topath-scale-linear", fmt.Sprintf("outline of the %vpt face is not %v x the outline of the %vpt face (relative deviation %.3g, bounding box off by %.3g mm)", sizes[k], ratio, sizes[keys[0]], worst, bb), replay)
				break
			}
			if len(pb) > 0 {
				em := b.mmEm * float64(src.Head.UnitsPerEm)
				if bx0 < -em || bx1 > b.width+em {
					failK(c, "topath-extent", fmt.Sprintf("%vpt face: ink spans x %.3f..%.3f mm but the advances give a line of %.3f mm", sizes[k], bx0, bx1, b.width), replay)
					break
				}
			}
		}
		if it == 0 {
			c.Sample(fmt.Sprintf("FACES %s %q sizes %v order %v / %v", name, str, sizes, order1, order2))
		}
	}

	// PATH correspondence: one font object, a history of faces with integer scales and the SAME ppem
	tt := freshFont("DejaVuSerif.ttf")
	srcTT := ref["DejaVuSerif.ttf"].SFNT
	var small []uint16
	own := map[uint16][][2]float64{}
	for g := 1; g < int(srcTT.NumGlyphs()) && len(small) < 120; g++ {
		p := &canvas.Path{}
		if err := srcTT.GlyphPath(p, uint16(g), 0, 0, 0, 1, font.NoHinting); err != nil {
			continue
		}
		pts, ok := pathPoints(p.Data())
		if !ok || len(pts) == 0 || len(pts) > 40 {
			continue
		}
		integral := true
		for _, q := range pts {
			if q[0] != math.Round(q[0]) || q[1] != math.Round(q[1]) {
				integral = false
			}
		}
		if integral {
			small = append(small, uint16(g))
			own[uint16(g)] = pts
		}
	}
	for it := 0; it < c.N/2; it++ {
		n := 1 + c.Intn(3)
		glyphs := make([]canvasText.Glyph, n)
		for i := range glyphs {
			g := canvasText.Glyph{SFNT: tt.SFNT, Size: 1, ID: small[c.Intn(len(small))]}
			if it%3 != 0 {
				g.ID = small[c.Intn(8)] // a few glyphs come back again and again across the history
			}
			g.Text = srcTT.Cmap.ToUnicode(g.ID)
			g.XAdvance = int32(c.Intn(2500))
			if c.Chance(0.2) {
				g.YAdvance = -int32(c.Intn(1500))
			}
			if c.Chance(0.2) {
				g.XOffset, g.YOffset = int32(c.Intn(401)-200), int32(c.Intn(401)-200)
			}
			glyphs[i] = g
		}
		f := int64([]int{1, 2, 3, 5, 7, 10}[c.Intn(6)])
		face := &canvas.FontFace{Font: tt, Size: float64(f), MmPerEm: float64(f)}
		if c.Chance(0.3) {
			face.XOffset, face.YOffset = int32(c.Intn(201)-100), int32(c.Intn(201)-100)
		}
		ppem := uint16([]int{0, 14, 14, 14, 20}[c.Intn(5)])
		var p *canvas.Path
		var err error
		if msg := hc.Try(func() { p, _, err = canvas.VerifC18ToPath(face, glyphs, ppem) }); msg != "" || err != nil {
			failK(c, "panic:toPath", fmt.Sprint(msg, err), map[string]any{"glyphs": fmt.Sprint(glyphs)})
			continue
		}
		c.Evals++
		pts, ok := pathPoints(p.Data())
		if !ok {
			failK(c, "topath-placement", "toPath produced a path with unexpected commands", map[string]any{"glyphs": fmt.Sprint(glyphs)})
			continue
		}
		// Go-side judgement with the input, so that a failure carries it
		exp := expectedPath(srcTT, float64(f), face.XOffset, face.YOffset, glyphs)
		if ok, why := sameData(p.Data(), exp.Data(), 1e-9); !ok {
			failK(c, "topath-placement", fmt.Sprintf("face scale %d (ppem %d, conversion %d of a history on one font object): %s", f, ppem, it, why),
				map[string]any{"scale": f, "ppem": ppem, "glyphs": fmt.Sprint(glyphs), "history_index": it})
			continue
		}
		var line strings.Builder
		fmt.Fprintf(&line, "PATH %d %d %d", f, face.XOffset, face.YOffset)
		for _, g := range glyphs {
			o := own[g.ID]
			fmt.Fprintf(&line, " %d %d %d %d %d", g.XAdvance, g.YAdvance, g.XOffset, g.YOffset, len(o))
			for _, q := range o {
				fmt.Fprintf(&line, " %d %d", int64(q[0]), int64(q[1]))
			}
		}
		outp := make([]string, 0, 2*len(pts))
		for _, q := range pts {
			outp = append(outp, strconv.FormatInt(int64(math.Round(q[0])), 10), strconv.FormatInt(int64(math.Round(q[1])), 10))
		}
		c.Count(fmt.Sprintf("faces:PATH scale %d", f))
		c.Distinct(line.String())
		c.Case(line.String(), "=", strings.Join(outp, " "))
	}
}
