package main

// Independent readers for the font-related parts of a PDF: Type0/CIDFont dictionaries, the W array
// (PDF 32000-1 §9.7.4.3), ToUnicode CMaps (§9.10.3, strict), CIDToGIDMap and embedded font programs.

import (
	"bytes"
	"fmt"
	"strings"

	"github.com/tdewolff/font"
)

type wEnt struct {
	arr         bool
	first, last int   // range form
	start       int   // array form
	ws          []int // array form
	w           int   // range form
}

type tuRange struct {
	lo, hi int
	dst    []byte
}
type tuChar struct {
	code int
	dst  []byte
}

type fontInfo struct {
	Ref       int
	Encoding  string
	Subtype   string // CIDFontType0 / CIDFontType2
	BaseFont  string
	DW        int
	W         []wEnt
	Ranges    []tuRange
	Chars     []tuChar
	CIDToGID  []uint16 // nil = identity
	HasMap    bool
	MapRaw    []byte
	Program   *font.SFNT
	ProgErr   error
	ProgRaw   []byte
	RangeN    []int // declared counts of the bfrange blocks
	CharN     []int
	MaxBlock  int
	ToUniText string
}

func parseW(f *pdfFile, v any) ([]wEnt, error) {
	arr, err := f.Arr(v)
	if err != nil {
		return nil, err
	}
	var out []wEnt
	for i := 0; i < len(arr); {
		c, err := f.Int(arr[i])
		if err != nil {
			return nil, fmt.Errorf("W: %v", err)
		}
		if i+1 >= len(arr) {
			return nil, fmt.Errorf("W: dangling CID")
		}
		nx, err := f.R(arr[i+1])
		if err != nil {
			return nil, err
		}
		if a, ok := nx.(pArr); ok {
			e := wEnt{arr: true, start: c}
			for _, x := range a {
				w, err := f.Int(x)
				if err != nil {
					return nil, fmt.Errorf("W: non-integer width %v", x)
				}
				e.ws = append(e.ws, w)
			}
			out = append(out, e)
			i += 2
		} else {
			if i+2 >= len(arr) {
				return nil, fmt.Errorf("W: dangling range")
			}
			last, err1 := f.Int(nx)
			w, err2 := f.Int(arr[i+2])
			if err1 != nil || err2 != nil {
				return nil, fmt.Errorf("W: bad range form")
			}
			out = append(out, wEnt{first: c, last: last, w: w})
			i += 3
		}
	}
	return out, nil
}

// lookupW: the glyph width a reader uses for a CID (first matching entry, else DW).
func lookupW(dw int, W []wEnt, cid int) int {
	for _, e := range W {
		if e.arr {
			if e.start <= cid && cid-e.start < len(e.ws) {
				return e.ws[cid-e.start]
			}
		} else if e.first <= cid && cid <= e.last {
			return e.w
		}
	}
	return dw
}

func wCanon(dw int, W []wEnt) string {
	var sb strings.Builder
	fmt.Fprintf(&sb, "%d", dw)
	for _, e := range W {
		if e.arr {
			fmt.Fprintf(&sb, " A %d %d", e.start, len(e.ws))
			for _, w := range e.ws {
				fmt.Fprintf(&sb, " %d", w)
			}
		} else {
			fmt.Fprintf(&sb, " R %d %d %d", e.first, e.last, e.w)
		}
	}
	return sb.String()
}

func beInt(b []byte) int {
	v := 0
	for _, c := range b {
		v = v<<8 | int(c)
	}
	return v
}

// parseToUnicode reads the bfrange / bfchar sections of a ToUnicode CMap.
func parseToUnicode(data []byte) (rs []tuRange, cs []tuChar, rangeN, charN []int, err error) {
	l := &pLexer{b: data}
	var prev any
	for {
		t, e := l.next()
		if e != nil {
			break
		}
		if t == pOp("beginbfrange") || t == pOp("beginbfchar") {
			n, ok := prev.(float64)
			if !ok {
				return nil, nil, nil, nil, fmt.Errorf("ToUnicode: %v without count", t)
			}
			isRange := t == pOp("beginbfrange")
			cnt := 0
			for {
				a, e := l.next()
				if e != nil {
					return nil, nil, nil, nil, fmt.Errorf("ToUnicode: unterminated section")
				}
				if a == pOp("endbfrange") || a == pOp("endbfchar") {
					break
				}
				as, ok := a.(pStr)
				if !ok {
					return nil, nil, nil, nil, fmt.Errorf("ToUnicode: expected hex string, got %v", a)
				}
				if isRange {
					b, _ := l.next()
					d, _ := l.next()
					bs, ok1 := b.(pStr)
					ds, ok2 := d.(pStr)
					if !ok1 || !ok2 {
						return nil, nil, nil, nil, fmt.Errorf("ToUnicode: bad bfrange entry")
					}
					rs = append(rs, tuRange{beInt(as), beInt(bs), []byte(ds)})
				} else {
					d, _ := l.next()
					ds, ok := d.(pStr)
					if !ok {
						return nil, nil, nil, nil, fmt.Errorf("ToUnicode: bad bfchar entry")
					}
					cs = append(cs, tuChar{beInt(as), []byte(ds)})
				}
				cnt++
			}
			if cnt != int(n) {
				return nil, nil, nil, nil, fmt.Errorf("ToUnicode: section declares %d entries, has %d", int(n), cnt)
			}
			if isRange {
				rangeN = append(rangeN, cnt)
			} else {
				charN = append(charN, cnt)
			}
		}
		prev = t
	}
	return
}

// utf16Scalar: a UTF-16BE string holding exactly one Unicode scalar value.
func utf16Scalar(b []byte) (rune, bool) {
	switch len(b) {
	case 2:
		v := rune(b[0])<<8 | rune(b[1])
		if 0xD800 <= v && v <= 0xDFFF {
			return 0, false
		}
		return v, true
	case 4:
		hi := rune(b[0])<<8 | rune(b[1])
		lo := rune(b[2])<<8 | rune(b[3])
		if 0xD800 <= hi && hi <= 0xDBFF && 0xDC00 <= lo && lo <= 0xDFFF {
			return 0x10000 + (hi-0xD800)<<10 + (lo - 0xDC00), true
		}
	}
	return 0, false
}

// tuLookup is the strict §9.10.3 reader. why: "" | "unmapped" | "range-last-byte-overflow" | "not-one-scalar"
func tuLookup(rs []tuRange, cs []tuChar, code int) (rune, string) {
	for _, r := range rs {
		if r.lo <= code && code <= r.hi {
			if len(r.dst) == 0 {
				return 0, "not-one-scalar"
			}
			if int(r.dst[len(r.dst)-1])+(r.hi-r.lo) > 255 {
				return 0, "range-last-byte-overflow"
			}
			d := append([]byte{}, r.dst...)
			d[len(d)-1] += byte(code - r.lo)
			u, ok := utf16Scalar(d)
			if !ok {
				return 0, "not-one-scalar"
			}
			return u, ""
		}
	}
	for _, c := range cs {
		if c.code == code {
			u, ok := utf16Scalar(c.dst)
			if !ok {
				return 0, "not-one-scalar"
			}
			return u, ""
		}
	}
	return 0, "unmapped"
}

func tuCanon(rs []tuRange, cs []tuChar) string {
	var parts []string
	for _, r := range rs {
		parts = append(parts, fmt.Sprintf("R %d %d %d", r.lo, r.hi, beInt(r.dst)))
	}
	for _, c := range cs {
		parts = append(parts, fmt.Sprintf("C %d %d", c.code, beInt(c.dst)))
	}
	return strings.Join(parts, " ")
}

// readFont reads a Type0 font dictionary with its descendant CIDFont.
func readFont(f *pdfFile, v any) (*fontInfo, error) {
	d, err := f.Dict(v)
	if err != nil {
		return nil, err
	}
	fi := &fontInfo{}
	if r, ok := v.(pRef); ok {
		fi.Ref = int(r)
	}
	if d["Subtype"] != pName("Type0") {
		return nil, fmt.Errorf("font is not Type0: %v", d["Subtype"])
	}
	enc, _ := f.R(d["Encoding"])
	if n, ok := enc.(pName); ok {
		fi.Encoding = string(n)
	}
	if n, ok := d["BaseFont"].(pName); ok {
		fi.BaseFont = string(n)
	}
	desc, err := f.Arr(d["DescendantFonts"])
	if err != nil || len(desc) != 1 {
		return nil, fmt.Errorf("DescendantFonts must be a one-element array")
	}
	cf, err := f.Dict(desc[0])
	if err != nil {
		return nil, err
	}
	if n, ok := cf["Subtype"].(pName); ok {
		fi.Subtype = string(n)
	}
	fi.DW = 1000
	if _, ok := cf["DW"]; ok {
		if fi.DW, err = f.Int(cf["DW"]); err != nil {
			return nil, fmt.Errorf("DW: %v", err)
		}
	}
	if _, ok := cf["W"]; ok {
		if fi.W, err = parseW(f, cf["W"]); err != nil {
			return nil, err
		}
	}
	if m, ok := cf["CIDToGIDMap"]; ok {
		mv, err := f.R(m)
		if err != nil {
			return nil, err
		}
		if _, isName := mv.(pName); !isName {
			data, err := f.StreamData(m)
			if err != nil {
				return nil, fmt.Errorf("CIDToGIDMap: %v", err)
			}
			fi.HasMap = true
			fi.MapRaw = data
			fi.CIDToGID = make([]uint16, len(data)/2)
			for i := range fi.CIDToGID {
				fi.CIDToGID[i] = uint16(data[2*i])<<8 | uint16(data[2*i+1])
			}
		}
	}
	if tu, ok := d["ToUnicode"]; ok {
		data, err := f.StreamData(tu)
		if err != nil {
			return nil, fmt.Errorf("ToUnicode: %v", err)
		}
		fi.ToUniText = string(data)
		fi.Ranges, fi.Chars, fi.RangeN, fi.CharN, err = parseToUnicode(data)
		if err != nil {
			return nil, err
		}
		for _, n := range append(append([]int{}, fi.RangeN...), fi.CharN...) {
			if n > fi.MaxBlock {
				fi.MaxBlock = n
			}
		}
	}
	fd, err := f.Dict(cf["FontDescriptor"])
	if err != nil {
		return nil, fmt.Errorf("FontDescriptor: %v", err)
	}
	for _, key := range []string{"FontFile2", "FontFile3", "FontFile"} {
		if ff, ok := fd[key]; ok {
			data, err := f.StreamData(ff)
			if err != nil {
				return nil, fmt.Errorf("%s: %v", key, err)
			}
			if (key == "FontFile2") != (fi.Subtype == "CIDFontType2") {
				return nil, fmt.Errorf("%s does not fit /Subtype %s", key, fi.Subtype)
			}
			fi.ProgRaw = bytes.Clone(data)
			fi.Program, fi.ProgErr = font.ParseEmbeddedSFNT(bytes.Clone(data), 0)
		}
	}
	return fi, nil
}
