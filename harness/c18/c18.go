// C18 harness: FontSubsetter, W array, ToUnicode, TJ arithmetic, toPath pen positions — real code
// (build tag verif) against the Lean models/readers, plus a whole-PDF oracle (oracle.go).
package main

import (
	"fmt"
	"math"
	"os"
	"strconv"
	"strings"

	"github.com/tdewolff/canvas"
	"github.com/tdewolff/canvas/renderers/pdf"
	canvasText "github.com/tdewolff/canvas/text"
	"github.com/tdewolff/font"
	"verifharness/hc"
)

func main() { hc.Main("C18", run) }

func repoDir() string {
	if d := os.Getenv("VERIF_REPO"); d != "" {
		return d
	}
	return "/repo"
}

func loadFont(name string) *canvas.Font {
	f, err := canvas.LoadFontFile(repoDir()+"/resources/"+name, canvas.FontRegular)
	if err != nil {
		panic(fmt.Sprintf("cannot load bundled font %s: %v", name, err))
	}
	return f
}

func run(c *hc.Ctx) {
	sel := func(name string) bool { return c.Only == "" || c.Only == name }
	if sel("sub") {
		genSub(c)
	}
	if sel("w") {
		genW(c)
	}
	if sel("tu") {
		genTU(c)
	}
	if sel("cm") {
		genCM(c)
	}
	if sel("tj") {
		genTJ(c)
	}
	if sel("pen") {
		genPen(c)
	}
	if sel("faces") {
		genFaces(c)
	}
	if sel("pdf") {
		genPDF(c)
	}
}

// failK reports a property failure; at most 8 reports per kind are kept in full so that a frequent
// (recorded) class can never crowd another class out of the 200-entry report; all are counted.
var failCap = map[string]int{}

func failK(c *hc.Ctx, kind, desc string, replay any) {
	failCap[kind]++
	if failCap[kind] <= 8 {
		c.Fail(kind, desc, replay)
	} else {
		c.Count("FAIL:" + kind)
	}
}

func joinInts[T ~int | ~uint16 | ~int32 | ~uint32](xs []T) string {
	var sb strings.Builder
	for i, x := range xs {
		if i > 0 {
			sb.WriteByte(' ')
		}
		sb.WriteString(strconv.FormatInt(int64(x), 10))
	}
	return sb.String()
}

func bucket(n int) string {
	switch {
	case n == 0:
		return "0"
	case n <= 2:
		return "1-2"
	case n <= 8:
		return "3-8"
	case n <= 32:
		return "9-32"
	case n <= 128:
		return "33-128"
	}
	return ">128"
}

// ---------------------------------------------------------------------------------------------
// (a) FontSubsetter: histories of Get

func genSub(c *hc.Ctx) {
	for it := 0; it < c.N; it++ {
		var L int
		switch c.Intn(4) {
		case 0:
			L = c.Intn(6)
		case 1:
			L = c.Intn(40)
		default:
			L = c.Intn(250)
		}
		alpha := []int{1, 2, 4, 16, 100, 65536}[c.Intn(6)]
		base := []int{0, 1, 30, 255, 65535 - alpha + 1}[c.Intn(5)]
		if base < 0 {
			base = 0
		}
		h := make([]uint16, L)
		for i := range h {
			switch {
			case c.Chance(0.05):
				h[i] = 0
			case c.Chance(0.03):
				h[i] = 65535
			case i > 0 && c.Chance(0.15):
				h[i] = h[c.Intn(i)]
			default:
				h[i] = uint16((base + c.Intn(alpha)) % 65536)
			}
		}
		s := canvas.NewFontSubsetter()
		codes := make([]uint16, L)
		first := map[uint16]uint16{}
		byCode := map[uint16]uint16{}
		bad := ""
		for i, g := range h {
			before := len(s.List())
			codes[i] = s.Get(g)
			// independent judgement of the property on the real subsetter
			if prev, ok := first[g]; ok {
				c.Count("sub:repeat")
				if prev != codes[i] {
					bad = fmt.Sprintf("Get(%d) returned %d, earlier %d", g, codes[i], prev)
				}
				if len(s.List()) != before {
					bad = fmt.Sprintf("repeated Get(%d) grew IDs", g)
				}
			} else {
				c.Count("sub:new")
				first[g] = codes[i]
				if og, ok := byCode[codes[i]]; ok && og != g {
					bad = fmt.Sprintf("glyphs %d and %d share code %d", og, g, codes[i])
				}
				byCode[codes[i]] = g
			}
			if g == 0 {
				c.Count("sub:notdef")
				if codes[i] != 0 {
					bad = fmt.Sprintf("Get(0) = %d", codes[i])
				}
			}
			ids := s.List()
			if int(codes[i]) >= len(ids) || ids[codes[i]] != g {
				bad = fmt.Sprintf("IDs[Get(%d)=%d] is not %d", g, codes[i], g)
			}
		}
		c.Evals++
		if ids := s.List(); len(ids) == 0 || ids[0] != 0 {
			bad = "IDs[0] is not .notdef"
		}
		if bad != "" {
			failK(c, "subsetter", bad, map[string]any{"history": h})
		}
		c.Count("sub:len " + bucket(L))
		c.Distinct("sub " + joinInts(h))
		c.Case("SUB "+joinInts(h), "=", strings.TrimSpace(joinInts(codes)+" | "+joinInts(s.List())))
		if it == 0 {
			c.Sample("SUB " + joinInts(h) + " -> " + joinInts(codes))
		}
	}
}

// ---------------------------------------------------------------------------------------------
// mutable private font: advances and glyph→rune map are overwritten per case, then the REAL
// writeFont runs on it

type fakeCmap struct{ m map[uint16]rune }

func (f fakeCmap) Get(r rune) (uint16, bool) { return 0, false }
func (f fakeCmap) ToUnicode(g uint16) (rune, bool) {
	r, ok := f.m[g]
	return r, ok
}

type mutFont struct {
	f    *canvas.Font
	cmap *fakeCmap
	n    int // usable glyph IDs 0..n-1
}

func newMutFont(name string) *mutFont {
	f := loadFont(name)
	m := &mutFont{f: f, cmap: &fakeCmap{m: map[uint16]rune{}}}
	m.n = len(f.SFNT.Hmtx.HMetrics)
	if g := int(f.SFNT.NumGlyphs()); g < m.n {
		m.n = g
	}
	f.SFNT.Cmap.Subtables = append(f.SFNT.Cmap.Subtables[:0], m.cmap)
	return m
}

func seqIDs(n int) []uint16 {
	ids := make([]uint16, 0, n)
	for g := 1; g < n; g++ {
		ids = append(ids, uint16(g))
	}
	return ids
}

// fontFromHook parses the objects written by writeFont and returns the Type0 font.
func fontFromHook(out []byte, ref int) (*fontInfo, error) {
	f, order, err := scanObjects(out)
	if err != nil {
		return nil, err
	}
	if len(order) == 0 || order[len(order)-1] != ref {
		return nil, fmt.Errorf("font dictionary object %d is not the last object written (%v)", ref, order)
	}
	return readFont(f, pRef(ref))
}

// ---------------------------------------------------------------------------------------------
// (b) W array

func genWidths(c *hc.Ctx) []int {
	n := 1 + c.Intn(12)
	if c.Chance(0.6) {
		n = 1 + c.Intn(300)
	}
	pal := []int{0, 250, 500, 600, 1000, 65535}
	k := 1 + c.Intn(len(pal))
	ws := make([]int, 0, n)
	for len(ws) < n {
		run := []int{1, 1, 2, 3, 4, 5, 6, 7, 12, 40}[c.Intn(10)]
		var w int
		switch c.Intn(4) {
		case 0:
			w = c.Intn(2000)
		case 1:
			if len(ws) > 0 {
				w = ws[0] // equal to DW
			}
		default:
			w = pal[c.Intn(k)]
		}
		for i := 0; i < run && len(ws) < n; i++ {
			ws = append(ws, w)
		}
	}
	return ws
}

func genW(c *hc.Ctx) {
	mf := newMutFont("Dynalight-Regular.otf")
	for it := 0; it < c.N; it++ {
		advs := genWidths(c)
		if len(advs) > mf.n {
			advs = advs[:mf.n]
		}
		// units per em: 1000 makes the widths the advances themselves; the others (1000/upm exact in
		// binary) exercise int(f*adv+0.5)
		upm := []int{1000, 1000, 2048, 1024, 2000, 500, 4096}[c.Intn(7)]
		mf.f.SFNT.Head.UnitsPerEm = uint16(upm)
		ws := make([]int, len(advs))
		for g, a := range advs {
			mf.f.SFNT.Hmtx.HMetrics[g].AdvanceWidth = uint16(a)
			ws[g] = (2000*a + upm) / (2 * upm) // round half up, from the definition
		}
		c.Count(fmt.Sprintf("w:upm %d", upm))
		var out []byte
		var ref int
		if msg := hc.Try(func() { out, _, ref = pdf.VerifC18WriteFont(mf.f, seqIDs(len(ws)), false, c.Bool(), false) }); msg != "" {
			failK(c, "panic:writeFont", msg, map[string]any{"widths": ws})
			continue
		}
		fi, err := fontFromHook(out, ref)
		if err != nil {
			failK(c, "w-unreadable", err.Error(), map[string]any{"widths": ws})
			continue
		}
		c.Evals++
		// semantic judgement on the real output (independent Go reader)
		for cid, w := range ws {
			if got := lookupW(fi.DW, fi.W, cid); got != w {
				failK(c, "w-roundtrip", fmt.Sprintf("CID %d reads width %d, font has %d; DW=%d W=%s", cid, got, w, fi.DW, wCanon(fi.DW, fi.W)), map[string]any{"widths": ws})
				break
			}
		}
		nr, na, dwskip := 0, 0, false
		for _, e := range fi.W {
			if e.arr {
				na++
			} else {
				nr++
			}
		}
		// a run of >= 5 DW widths that is simply left out
		runLen := 0
		for cid := 1; cid < len(ws); cid++ {
			if ws[cid] == ws[0] {
				runLen++
				if runLen >= 5 {
					dwskip = true
				}
			} else {
				runLen = 0
			}
		}
		c.Count("w:len " + bucket(len(ws)))
		c.Count(fmt.Sprintf("w:range-entries %s", bucket(nr)))
		c.Count(fmt.Sprintf("w:array-entries %s", bucket(na)))
		if dwskip {
			c.Count("w:has-DW-run")
		}
		c.Distinct("w " + joinInts(ws))
		canon := wCanon(fi.DW, fi.W)
		// real encoder = model encoder (for some run-length threshold; all thresholds are proved)
		c.Case(fmt.Sprintf("WM %d %s %s", len(ws), joinInts(ws), canon), "=", "ok")
		// Lean's §9.7.4.3 reader on the real output gives the widths back
		c.Case(fmt.Sprintf("WDEC %d %s", len(ws), canon), "=", joinInts(ws))
		// advances -> widths -> W in the model (fontW) = the real font object
		c.Case(fmt.Sprintf("WFM %d %d %s %s", upm, len(advs), joinInts(advs), canon), "=", "ok")
		if it == 0 {
			c.Sample(fmt.Sprintf("W %v -> %s", ws, canon))
		}
	}
}

// ---------------------------------------------------------------------------------------------
// (c) ToUnicode

func validScalar(u int) bool { return u >= 0 && u <= 0x10FFFF && !(0xD800 <= u && u <= 0xDFFF) }

func genCodePoints(c *hc.Ctx, maxN int) []int {
	n := c.Intn(10)
	if c.Chance(0.6) {
		n = c.Intn(maxN)
	}
	us := make([]int, 0, n)
	starts := []int{0x20, 0x41, 0xF0, 0xFA, 0x1F8, 0xFFF0, 0xFFFA, 0xD7F8, 0xE000, 0x10000, 0x100F8, 0x103F8, 0x1F0F8, 0x1F600, 0x10FFF8, 0xFFFD, 0xFFFE}
	for len(us) < n {
		var u int
		switch c.Intn(6) {
		case 0:
			u = c.Intn(0x110000)
		case 1:
			u = 0x20 + c.Intn(0x25F)
		case 2:
			u = 0x10000 + c.Intn(0x100000)
		default:
			u = starts[c.Intn(len(starts))] + c.Intn(8)
		}
		run := []int{1, 1, 2, 3, 8, 20, 300}[c.Intn(7)]
		step := 1
		if c.Chance(0.1) {
			step = []int{0, 2, -1}[c.Intn(3)]
		}
		for i := 0; i < run && len(us) < n; i++ {
			v := u + i*step
			if v < 0 || v > 0x10FFFF {
				break
			}
			if 0xD800 <= v && v <= 0xDFFF && !c.Chance(0.02) {
				break // lone surrogates are not characters; keep a few to see both sides agree
			}
			us = append(us, v)
			if c.Chance(0.04) && len(us) < n {
				// a glyph without a cmap entry (ligature, alternate): Cmap.ToUnicode gives 0, also inside a run
				us = append(us, 0)
			}
		}
	}
	return us
}

func genTU(c *hc.Ctx) {
	mf := newMutFont("Dynalight-Regular.otf")
	for it := 0; it < c.N; it++ {
		us := genCodePoints(c, mf.n-1)
		for k := range mf.cmap.m {
			delete(mf.cmap.m, k)
		}
		for i, u := range us {
			mf.cmap.m[uint16(i+1)] = rune(u)
		}
		var out []byte
		var ref int
		if msg := hc.Try(func() { out, _, ref = pdf.VerifC18WriteFont(mf.f, seqIDs(len(us)+1), false, c.Bool(), false) }); msg != "" {
			failK(c, "panic:writeFont", msg, map[string]any{"unicodes": us})
			continue
		}
		fi, err := fontFromHook(out, ref)
		if err != nil {
			failK(c, "tounicode-unreadable", err.Error(), map[string]any{"unicodes": us})
			continue
		}
		c.Evals++
		dec := make([]string, len(us))
		crossing, other := "", ""
		for i, u := range us {
			got, why := tuLookup(fi.Ranges, fi.Chars, i+1)
			if why == "" {
				dec[i] = strconv.Itoa(int(got))
			} else {
				dec[i] = "x"
			}
			if !validScalar(u) {
				c.Count("tu:non-scalar-input")
				continue
			}
			if why == "range-last-byte-overflow" {
				if crossing == "" {
					crossing = fmt.Sprintf("code %04X (U+%04X) lies in a bfrange whose last byte is incremented past 255", i+1, u)
				}
			} else if why != "" || int(got) != u {
				if other == "" {
					other = fmt.Sprintf("code %04X should read U+%04X, strict reader gives %q U+%04X", i+1, u, why, got)
				}
			}
		}
		if u0, why := tuLookup(fi.Ranges, fi.Chars, 0); why == "range-last-byte-overflow" {
			// .notdef shares a range with the following codes
			_ = u0
		} else if why != "" || u0 != 0xFFFD {
			other = fmt.Sprintf("code 0000 should read U+FFFD, got %q U+%04X", why, u0)
		}
		canon := tuCanon(fi.Ranges, fi.Chars)
		if crossing != "" {
			failK(c, "tounicode-range-crosses-low-byte", crossing+"; CMap: "+canon, map[string]any{"unicodes": us})
			c.Count("tu:crossing")
		}
		if other != "" {
			failK(c, "tounicode-roundtrip", other+"; CMap: "+canon, map[string]any{"unicodes": us})
		}
		if fi.MaxBlock > 100 {
			c.Count("tu:block>100-entries(not judged)")
		}
		c.Count("tu:len " + bucket(len(us)))
		c.Count("tu:ranges " + bucket(len(fi.Ranges)))
		c.Count("tu:chars " + bucket(len(fi.Chars)))
		for _, u := range us {
			if u >= 0x10000 {
				c.Count("tu:has-surrogate-pair")
				break
			}
		}
		for _, u := range us {
			if u == 0 {
				c.Count("tu:has-unmapped-glyph(U+0000)")
				break
			}
		}
		// branches of the modelled builder reached by this input
		prev := 0xFFFD
		for _, u := range us {
			v := u
			if 0x10000 <= u && u <= 0x10FFFF {
				w := u - 0x10000
				v = (0xD800+(w>>10)&0x3FF)<<16 + 0xDC00 + w&0x3FF
			}
			switch {
			case v == prev+1 && v&0xFF == 0:
				c.Count("tu:branch run closed at low byte 00")
			case v == prev+1:
				c.Count("tu:branch run extended")
			default:
				c.Count("tu:branch new run")
			}
			prev = v
		}
		c.Distinct("tu " + joinInts(us))
		// real builder = model builder (output pinned up to the entry order inside each section)
		c.Case(strings.TrimSpace("TU "+joinInts(us)), "=", canon)
		// Lean's strict §9.10.3 reader and the Go reader agree on the real output
		c.Case(strings.TrimSpace(fmt.Sprintf("TUDEC %d %s", len(us), canon)), "=", strings.Join(dec, " "))
		if it == 0 {
			c.Sample(fmt.Sprintf("TU %x -> %s", us, canon))
		}
	}
}

// ---------------------------------------------------------------------------------------------
// (d) TJ adjustments through the real WriteText

// tjItems flattens a parsed TJ array into codes and the adjustment that follows each code.
func tjItems(arr pArr) (codes []int, adj []float64, lead float64, err error) {
	for _, e := range arr {
		switch v := e.(type) {
		case pStr:
			if len(v)%2 != 0 {
				return nil, nil, 0, fmt.Errorf("odd-length string in TJ for a 2-byte encoding")
			}
			for i := 0; i < len(v); i += 2 {
				codes = append(codes, int(v[i])<<8|int(v[i+1]))
				adj = append(adj, 0)
			}
		case float64:
			if len(adj) == 0 {
				lead += v
			} else {
				adj[len(adj)-1] += v
			}
		default:
			return nil, nil, 0, fmt.Errorf("unexpected %T in TJ array", e)
		}
	}
	return
}

func parseTJ(s string) (pArr, error) {
	l := &pLexer{b: []byte(s)}
	v, err := l.next()
	if err != nil {
		return nil, err
	}
	arr, ok := v.(pArr)
	if !ok {
		return nil, fmt.Errorf("WriteText did not start with an array: %q", s)
	}
	if op, _ := l.next(); op != pOp("TJ") {
		return nil, fmt.Errorf("array not followed by TJ: %q", s)
	}
	return arr, nil
}

// drift judgement from the definition: the reader moves by -e thousandths, the layout asked for x
func tjDriftOK(e float64, dx, upm int) bool {
	x := 1000 * float64(dx) / float64(upm)
	d := -e - x
	if x >= -0.5 {
		return -0.5-1e-9 < d && d <= 0.5+1e-9
	}
	return 0.5-1e-9 <= d && d < 1.5+1e-9
}

func genTJ(c *hc.Ctx) {
	type tf struct {
		f     *canvas.Font
		exact bool
	}
	var fonts []tf
	for _, n := range []string{"DejaVuSerif.ttf", "EBGaramond12-Regular.otf"} {
		fonts = append(fonts, tf{loadFont(n), true})
	}
	for _, upm := range []uint16{1024, 2000, 4096, 500, 250, 512} { // 1000/upm is a binary fraction: exact
		f := loadFont("Dynalight-Regular.otf")
		f.SFNT.Head.UnitsPerEm = upm
		fonts = append(fonts, tf{f, true})
	}
	for _, upm := range []uint16{1500, 3000, 2400, 900} { // inexact factor: judged by the oracle only
		f := loadFont("Dynalight-Regular.otf")
		f.SFNT.Head.UnitsPerEm = upm
		fonts = append(fonts, tf{f, false})
	}
	for it := 0; it < c.N; it++ {
		t := fonts[c.Intn(len(fonts))]
		sf := t.f.SFNT
		upm := int(sf.Head.UnitsPerEm)
		ng := int(sf.NumGlyphs())
		n := 1 + c.Intn(10)
		if c.Chance(0.08) {
			n = 95 + c.Intn(40) // enough distinct glyphs for codes 0x0A 0x0D 0x28 0x29 0x5C
		}
		vertical := c.Chance(0.15)
		glyphs := make([]canvasText.Glyph, n)
		dxs := make([]int, n)
		for i := range glyphs {
			id := uint16(1 + c.Intn(ng-1))
			if n > 90 {
				id = uint16(1 + (i*7+it)%(ng-1))
			}
			var dx int
			switch c.Intn(6) {
			case 0, 1:
				dx = 0
			case 2:
				dx = c.Intn(11) - 5
			case 3:
				dx = -c.Intn(400)
			case 4:
				dx = c.Intn(4001) - 2000
			case 5:
				dx = (2*c.Intn(60) - 59) * upm / 2000 // near the half-way points
			}
			dxs[i] = dx
			g := canvasText.Glyph{SFNT: sf, Size: 12, ID: id, Vertical: vertical}
			if !vertical {
				g.XAdvance = int32(sf.GlyphAdvance(id)) + int32(dx)
			} else {
				g.YAdvance = -int32(sf.GlyphVerticalAdvance(id)) + int32(dx)
			}
			glyphs[i] = g
		}
		mode, dir := canvas.HorizontalTB, canvasText.LeftToRight
		if vertical {
			mode, dir = canvas.VerticalRL, canvasText.TopToBottom
		}
		var s string
		var ids []uint16
		if msg := hc.Try(func() { s, ids = pdf.VerifC18WriteText(t.f, 12.0, dir, mode, glyphs) }); msg != "" {
			failK(c, "panic:WriteText", msg, map[string]any{"upm": upm, "dx": dxs})
			continue
		}
		c.Evals++
		replay := map[string]any{"upm": upm, "dx": dxs, "vertical": vertical, "out": s}
		arr, err := parseTJ(s)
		if err != nil {
			failK(c, "tj-unreadable", err.Error(), replay)
			continue
		}
		codes, adj, lead, err := tjItems(arr)
		if err != nil || lead != 0 || len(codes) != n {
			failK(c, "tj-codes", fmt.Sprintf("TJ array has %d codes for %d glyphs (lead %v, err %v)", len(codes), n, lead, err), replay)
			continue
		}
		bad := false
		for i, g := range glyphs {
			if codes[i] >= len(ids) || ids[codes[i]] != g.ID {
				failK(c, "tj-codes", fmt.Sprintf("glyph %d (ID %d) written with code %d which names another glyph", i, g.ID, codes[i]), replay)
				bad = true
				break
			}
			switch codes[i] & 0xFF {
			case '\n', '\r', '\t', '\b', '\f', '(', ')', '\\':
				c.Count("tj:escaped-byte")
				c.Count(fmt.Sprintf("tj:branch escape of byte 0x%02X", codes[i]&0xFF))
			}
			if codes[i]>>8 == '(' || codes[i]>>8 == ')' || codes[i]>>8 == '\\' {
				c.Count("tj:escaped-byte")
			}
		}
		if bad {
			continue
		}
		// the array as a whole: bytes = model (exact factor), Lean's 9.4.3 reading = the Go reading,
		// Lean's 7.3.4.2 reader on every raw chunk = the code bytes
		var canon, readback []string
		for _, e := range arr {
			switch v := e.(type) {
			case pStr:
				canon = append(canon, "S", strconv.Itoa(len(v)/2))
				for k := 0; k+1 < len(v); k += 2 {
					canon = append(canon, strconv.Itoa(int(v[k])<<8|int(v[k+1])))
				}
			case float64:
				canon = append(canon, "N", strconv.FormatInt(int64(v), 10))
			}
		}
		readback = append(readback, "0")
		for i := range codes {
			readback = append(readback, strconv.Itoa(codes[i]), strconv.FormatInt(int64(adj[i]), 10))
		}
		c.Case("TJR "+strings.Join(canon, " "), "=", strings.Join(readback, " "))
		if t.exact && len(s) < 1500 {
			var line strings.Builder
			fmt.Fprintf(&line, "TJB %d", upm)
			for i := range codes {
				fmt.Fprintf(&line, " %d %d", codes[i], dxs[i])
			}
			bs := make([]string, len(s))
			for i := 0; i < len(s); i++ {
				bs[i] = strconv.Itoa(int(s[i]))
			}
			c.Case(line.String(), "=", strings.Join(bs, " "))
			c.Count("tj:whole-array bytes compared")
		}
		for ci, raw := range rawChunks(s) {
			if ci >= 6 {
				break
			}
			// raw = bytes after '(' up to the end of the output; the reader must stop at the chunk's ')'
			dec, restLen, ok := goReadLit(raw)
			want := "unterminated"
			if ok {
				ds := make([]string, len(dec))
				for i, b := range dec {
					ds[i] = strconv.Itoa(int(b))
				}
				want = strings.TrimSpace(strings.Join(ds, " ") + " | " + strconv.Itoa(restLen))
			}
			if len(raw) > 400 {
				raw = raw[:400] // the reader only needs the chunk; keep lines short
				continue
			}
			rs := make([]string, len(raw))
			for i := 0; i < len(raw); i++ {
				rs[i] = strconv.Itoa(int(raw[i]))
			}
			c.Case("LIT "+strings.Join(rs, " "), "=", want)
			c.Count("tj:literal chunks read by Lean")
		}
		for i, dx := range dxs {
			e := adj[i]
			if dx == 0 {
				c.Count("tj:dx=0")
				if e != 0 {
					failK(c, "tj-drift", fmt.Sprintf("glyph %d has its font advance but TJ adjusts by %v", i, e), replay)
				}
				continue
			}
			if !tjDriftOK(e, dx, upm) {
				failK(c, "tj-drift", fmt.Sprintf("glyph %d: dx=%d units (%.4f/1000 em) written as %v", i, dx, 1000*float64(dx)/float64(upm), e), replay)
			}
			x := 1000 * float64(dx) / float64(upm)
			switch {
			case x >= 0:
				c.Count("tj:dx>0")
			case x >= -0.5:
				c.Count("tj:-0.5<=x<0")
			default:
				c.Count("tj:x<-0.5 (truncated towards the pen)")
			}
			if math.Abs(x+0.5-math.Round(x+0.5)) < 1e-12 {
				c.Count("tj:exact-half")
			}
			if t.exact {
				c.Distinct(fmt.Sprintf("tj %d %d", upm, dx))
				c.Case(fmt.Sprintf("TJ %d %d", upm, dx), "=", strconv.FormatInt(int64(e), 10))
			} else {
				c.Count("tj:inexact-factor(oracle only)")
			}
		}
		if vertical {
			c.Count("tj:vertical")
		}
		if it == 0 {
			c.Sample(fmt.Sprintf("TJ upm=%d dx=%v -> %q", upm, dxs, s))
		}
	}
}

// ---------------------------------------------------------------------------------------------
// (e) toPath pen positions and textWidth

func outlineIDs(f *canvas.Font, max int) []uint16 {
	var ids []uint16
	for g := 1; g < int(f.SFNT.NumGlyphs()) && len(ids) < max; g++ {
		p := &canvas.Path{}
		if err := f.SFNT.GlyphPath(p, uint16(g), 0, 0, 0, 1, font.NoHinting); err == nil && len(p.Data()) > 0 {
			ids = append(ids, uint16(g))
		}
	}
	return ids
}

func genPen(c *hc.Ctx) {
	fonts := []*canvas.Font{loadFont("DejaVuSerif.ttf"), loadFont("EBGaramond12-Regular.otf")}
	ids := [][]uint16{outlineIDs(fonts[0], 400), outlineIDs(fonts[1], 400)}
	for it := 0; it < c.N; it++ {
		fi := c.Intn(2)
		f := fonts[fi]
		n := c.Intn(9)
		face := &canvas.FontFace{Font: f, Size: 1, MmPerEm: 1}
		if c.Chance(0.4) {
			face.XOffset = int32(c.Intn(801) - 400)
			face.YOffset = int32(c.Intn(801) - 400)
			c.Count("pen:face-offset")
		}
		glyphs := make([]canvasText.Glyph, n)
		allH := true
		// vertical runs: every glyph (whitespace included) carries a non-zero YAdvance
		vrun := c.Chance(0.4)
		if vrun {
			c.Count("pen:vertical-run")
		}
		for i := range glyphs {
			g := canvasText.Glyph{SFNT: f.SFNT, Size: 1, ID: ids[fi][c.Intn(len(ids[fi]))]}
			g.Text = f.SFNT.Cmap.ToUnicode(g.ID)
			if c.Chance(0.25) {
				// whitespace: no outline, but it moves the pen like any other glyph
				ws := []rune{' ', '\t', 0x00A0, 0x3000, 0x2003}[c.Intn(5)]
				id := f.SFNT.GlyphIndex(ws)
				if id == 0 {
					id = f.SFNT.GlyphIndex(' ')
				}
				g.ID, g.Text = id, ws
				c.Count("pen:whitespace-glyph")
			}
			g.XAdvance = int32(c.Intn(3001) - 500)
			if vrun {
				g.XAdvance = 0
				if c.Chance(0.2) {
					g.XAdvance = int32(c.Intn(201) - 100)
				}
				g.YAdvance = -int32(200 + c.Intn(2500))
				g.Vertical = true
				allH = false
			} else {
				if c.Chance(0.3) {
					g.YAdvance = int32(c.Intn(2001) - 1000)
				}
				if c.Chance(0.15) {
					g.Vertical = true
					allH = false
				}
			}
			if c.Chance(0.3) {
				g.XOffset = int32(c.Intn(601) - 300)
				g.YOffset = int32(c.Intn(601) - 300)
				c.Count("pen:glyph-offset")
			}
			glyphs[i] = g
		}
		var p *canvas.Path
		var w, tw float64
		var err error
		if msg := hc.Try(func() {
			p, w, err = canvas.VerifC18ToPath(face, glyphs, 0)
			tw = canvas.VerifC18TextWidth(face, glyphs)
		}); msg != "" || err != nil {
			failK(c, "panic:toPath", fmt.Sprint(msg, err), map[string]any{"glyphs": fmt.Sprint(glyphs)})
			continue
		}
		c.Evals++
		replay := map[string]any{"font": f.Name(), "xoffset": face.XOffset, "yoffset": face.YOffset, "glyphs": fmt.Sprint(glyphs)}
		// expectation from the definition: outline k at offset + sum of the preceding advances
		exp := &canvas.Path{}
		x, y := int64(face.XOffset), int64(face.YOffset)
		sumH := int64(0)
		var lens []int
		var firsts [][2]float64
		for _, g := range glyphs {
			own := &canvas.Path{}
			f.SFNT.GlyphPath(own, g.ID, 0, 0, 0, 1, font.NoHinting)
			lens = append(lens, len(own.Data()))
			if len(own.Data()) > 2 {
				firsts = append(firsts, [2]float64{own.Data()[1], own.Data()[2]})
			} else {
				firsts = append(firsts, [2]float64{})
			}
			f.SFNT.GlyphPath(exp, g.ID, 0, float64(x+int64(g.XOffset)), float64(y+int64(g.YOffset)), 1, font.NoHinting)
			x += int64(g.XAdvance)
			y += int64(g.YAdvance)
			if !g.Vertical {
				sumH += int64(g.XAdvance)
			} else {
				sumH -= int64(g.YAdvance)
			}
		}
		got, want := p.Data(), exp.Data()
		same := len(got) == len(want)
		for i := 0; same && i < len(got); i++ {
			if math.Abs(got[i]-want[i]) > 1e-9 {
				same = false
			}
		}
		if !same {
			failK(c, "topath-placement", "glyph outlines are not at offset + sum of the preceding advances", replay)
			continue
		}
		if w != float64(x) {
			failK(c, "topath-width", fmt.Sprintf("returned width %v, pen is at %d", w, x), replay)
		}
		if tw != float64(sumH) {
			failK(c, "textwidth", fmt.Sprintf("textWidth %v, advances sum to %d", tw, sumH), replay)
		}
		if allH && face.XOffset == 0 && w != tw {
			failK(c, "topath-width-vs-textwidth", fmt.Sprintf("toPath width %v != textWidth %v", w, tw), replay)
		}
		if allH && face.XOffset != 0 {
			c.Count("pen:width=XOffset+textWidth")
		}
		// recover the position of every glyph from the real path for the model comparison
		var pos []string
		off := 0
		for k := range glyphs {
			if lens[k] == 0 {
				continue // unobservable: the model is asked for the outlined glyphs only
			}
			px := got[off+1] - firsts[k][0]
			py := got[off+2] - firsts[k][1]
			pos = append(pos, strconv.FormatInt(int64(math.Round(px)), 10), strconv.FormatInt(int64(math.Round(py)), 10))
			off += lens[k]
		}
		var line strings.Builder
		fmt.Fprintf(&line, "PEN %d %d", face.XOffset, face.YOffset)
		for k, g := range glyphs {
			fmt.Fprintf(&line, " %d %d %d %d %s %s", g.XAdvance, g.YAdvance, g.XOffset, g.YOffset, hc.B(g.Vertical), hc.B(lens[k] > 0))
		}
		c.Count("pen:glyphs " + bucket(n))
		c.Distinct(line.String())
		c.Case(line.String(), "=", strings.TrimSpace(strings.Join(pos, " ")+" | "+strconv.FormatInt(int64(w), 10)+" "+strconv.FormatInt(int64(tw), 10)))
		if it == 0 {
			c.Sample(line.String())
		}
		if c.Chance(0.3) {
			// public API on a real face: ToPath's width is TextWidth (no face offset), one outline per glyph
			rf := f.Face(float64(6+c.Intn(40)), canvas.Black)
			str := textPool[c.Intn(len(textPool))]
			if c.Chance(0.4) {
				rf.Direction = canvasText.TopToBottom // upright vertical shaping: advances run along y
				c.Count("pen:public ToPath top-to-bottom")
			}
			var p2 *canvas.Path
			var w2, tw2 float64
			var err2 error
			if msg := hc.Try(func() { p2, w2, err2 = rf.ToPath(str); tw2 = rf.TextWidth(str) }); msg != "" || err2 != nil {
				failK(c, "panic:ToPath", fmt.Sprint(msg, err2), map[string]any{"font": f.Name(), "text": str})
				continue
			}
			c.Evals++
			c.Count("pen:public ToPath/TextWidth")
			gl := rf.Glyphs(str)
			exp2 := &canvas.Path{}
			x, y := int64(0), int64(0)
			for _, g := range gl {
				f.SFNT.GlyphPath(exp2, g.ID, 0, rf.MmPerEm*float64(x+int64(g.XOffset)), rf.MmPerEm*float64(y+int64(g.YOffset)), rf.MmPerEm, font.NoHinting)
				x += int64(g.XAdvance)
				y += int64(g.YAdvance)
				if g.YAdvance != 0 {
					c.Count("pen:public glyph with YAdvance")
				}
			}
			a, b := p2.Data(), exp2.Data()
			ok := len(a) == len(b)
			for i := 0; ok && i < len(a); i++ {
				ok = math.Abs(a[i]-b[i]) <= 1e-9*(1+math.Abs(b[i]))
			}
			if !ok {
				failK(c, "topath-placement", "ToPath(string) outlines are not at the summed advances", map[string]any{"font": f.Name(), "text": str, "size": rf.Size, "direction": fmt.Sprint(rf.Direction)})
			}
			if w2 != tw2 || math.Abs(w2-rf.MmPerEm*float64(x)) > 1e-9*(1+math.Abs(w2)) {
				failK(c, "topath-width-vs-textwidth", fmt.Sprintf("ToPath width %v, TextWidth %v, advances %v", w2, tw2, rf.MmPerEm*float64(x)), map[string]any{"font": f.Name(), "text": str, "size": rf.Size})
			}
		}
	}
}

// rawChunks returns, for every `(` that opens a literal string in a TJ array, the bytes after it
// (to the end of s). Strings are found by skipping escaped bytes.
func rawChunks(s string) []string {
	var out []string
	depth := 0
	for i := 0; i < len(s); i++ {
		switch s[i] {
		case '\\':
			i++
		case '(':
			if depth == 0 {
				out = append(out, s[i+1:])
			}
			depth++
		case ')':
			if depth > 0 {
				depth--
			}
		}
	}
	return out
}

// goReadLit: the harness's own literal-string reader (pLexer) applied to "(" + raw.
func goReadLit(raw string) ([]byte, int, bool) {
	l := &pLexer{b: []byte("(" + raw)}
	v, err := l.next()
	if err != nil {
		return nil, 0, false
	}
	str, ok := v.(pStr)
	if !ok {
		return nil, 0, false
	}
	return []byte(str), len(l.b) - l.pos, true
}

// ---------------------------------------------------------------------------------------------
// (i) CIDToGIDMap and code -> glyph, through the real getFont/Get/writeFont (fonts not subsetted)

func genCM(c *hc.Ctx) {
	f := loadFont("DejaVuSerif.ttf")
	ng := int(f.SFNT.NumGlyphs())
	for it := 0; it < c.N/2; it++ {
		n := 1 + c.Intn(12)
		if c.Chance(0.3) {
			n = 20 + c.Intn(300)
		}
		h := make([]uint16, n)
		for i := range h {
			switch {
			case c.Chance(0.05):
				h[i] = 0
			case i > 0 && c.Chance(0.25):
				h[i] = h[c.Intn(i)]
			case c.Chance(0.3):
				h[i] = uint16(c.Intn(300)) // low byte and high byte classes
			default:
				h[i] = uint16(c.Intn(ng))
			}
		}
		var out []byte
		var codes []uint16
		var ref int
		if msg := hc.Try(func() { out, codes, ref = pdf.VerifC18WriteFont(f, h, false, c.Bool(), false) }); msg != "" {
			failK(c, "panic:writeFont", msg, map[string]any{"glyphs": h})
			continue
		}
		fi, err := fontFromHook(out, ref)
		if err != nil || !fi.HasMap {
			failK(c, "cidtogid-unreadable", fmt.Sprint("no readable CIDToGIDMap: ", err), map[string]any{"glyphs": h})
			continue
		}
		c.Evals++
		// IDs in code order, from the codes the real subsetter returned
		maxc := 0
		for _, cd := range codes {
			if int(cd) > maxc {
				maxc = int(cd)
			}
		}
		ids := make([]int, maxc+1)
		for i, cd := range codes {
			ids[cd] = int(h[i])
		}
		shown := make([]string, len(h))
		for i, cd := range codes {
			if int(cd) < len(fi.CIDToGID) {
				shown[i] = strconv.Itoa(int(fi.CIDToGID[cd]))
				if fi.CIDToGID[cd] != h[i] {
					failK(c, "glyph-mismatch", fmt.Sprintf("Get(%d) returned code %d, CIDToGIDMap[%d] = %d", h[i], cd, cd, fi.CIDToGID[cd]), map[string]any{"glyphs": h})
				}
			} else {
				shown[i] = "x"
				failK(c, "glyph-mismatch", fmt.Sprintf("code %d beyond the CIDToGIDMap (%d entries)", cd, len(fi.CIDToGID)), map[string]any{"glyphs": h})
			}
		}
		raw := make([]string, len(fi.MapRaw))
		for i, b := range fi.MapRaw {
			raw[i] = strconv.Itoa(int(b))
		}
		c.Count("cm:glyphs " + bucket(n))
		c.Distinct("cm " + joinInts(h))
		// the stream bytes = the model's, for the real subsetter's glyph list
		c.Case("CM "+joinInts(ids), "=", strings.Join(raw, " "))
		// end to end: model subsetter + model map shows, for every call of the history, the glyph asked for
		// = what the real code's code selects through the real stream
		c.Case("CG 0 "+joinInts(h), "=", strings.Join(shown, " "))
		if it%3 == 0 {
			// subsetting on: the code is the glyph index of the embedded program; observe which source glyph
			// sits there by comparing outlines and advances with a pristine copy
			var out2 []byte
			var codes2 []uint16
			var ref2 int
			f2 := loadFont("DejaVuSerif.ttf")
			if msg := hc.Try(func() { out2, codes2, ref2 = pdf.VerifC18WriteFont(f2, h, true, c.Bool(), false) }); msg != "" {
				failK(c, "panic:writeFont", msg, map[string]any{"glyphs": h, "subset": true})
				continue
			}
			fi2, err := fontFromHook(out2, ref2)
			if err != nil || fi2.Program == nil || fi2.HasMap {
				failK(c, "font-program", fmt.Sprint("subset font object unreadable: ", err), map[string]any{"glyphs": h, "subset": true})
				continue
			}
			shown2 := make([]string, len(h))
			for i, cd := range codes2 {
				shown2[i] = strconv.Itoa(int(h[i]))
				if h[i] == 0 {
					c.Count("cm:.notdef (emptied by the subsetter, not compared)")
					continue
				}
				if why := compareGlyph(f.SFNT, h[i], fi2.Program, int(cd)); why != "" {
					shown2[i] = "x"
					failK(c, "glyph-mismatch", fmt.Sprintf("subset: Get(%d) returned code %d, embedded glyph %d: %s", h[i], cd, cd, why), map[string]any{"glyphs": h, "subset": true})
				}
			}
			c.Count("cm:subset program compared")
			c.Case("CG 1 "+joinInts(h), "=", strings.Join(shown2, " "))
		}
		if it == 0 {
			c.Sample(fmt.Sprintf("CM %v -> %d bytes", h, len(fi.MapRaw)))
		}
	}
}
