package main

// NewTextLine (single-line layout, text.go:315-383): spans of every line tile an interval in the visual
// order of rule L2, the interval starts at 0 (Left), ends at 0 (Right) or is centred about 0 (Center),
// every character appears once, explicit line separators start a new line.

import (
	"fmt"
	"math"
	"strings"

	"github.com/tdewolff/canvas"
	"verifharness/hc"
)

func genTextLine(c *hc.Ctx) {
	pools := [][]string{latinWords, hebrewWords, arabicWords, cjkWords, otherWords}
	for it := 0; it < c.N/4+1; it++ {
		fi := c.Intn(len(fonts))
		face := fonts[fi].Face([]float64{8, 10, 12, 18}[c.Intn(4)], canvas.Black)
		var sb strings.Builder
		nw := 1 + c.Intn(6)
		mixed := c.Chance(0.6)
		pool := pools[c.Intn(len(pools))]
		for w := 0; w < nw; w++ {
			if mixed {
				pool = pools[c.Intn(len(pools))]
			}
			sb.WriteString(pool[c.Intn(len(pool))])
			if w < nw-1 {
				switch u := c.Float(); {
				case u < 0.12:
					sb.WriteString("\n")
				case u < 0.16:
					sb.WriteString("\r\n")
				case u < 0.2:
					sb.WriteString("\n\n")
				case u < 0.3:
					// nothing
				default:
					sb.WriteString(" ")
				}
			}
		}
		s := sb.String()
		halign := []canvas.TextAlign{canvas.Left, canvas.Center, canvas.Right}[c.Intn(3)]
		rp := map[string]any{"text": fmt.Sprintf("%q", s), "halign": halign.String(), "font": fi}
		var t *canvas.Text
		if msg := hc.Try(func() { t = canvas.NewTextLine(face, s, halign) }); msg != "" {
			c.Fail("textline-panic", msg, rp)
			continue
		}
		c.Evals++
		c.Count("textline:halign=" + halign.String())
		c.Distinct("tl" + s + halign.String())
		lines := observe(t)
		// expected non-empty lines of the input
		want := []string{}
		cur := ""
		for _, r := range s + "\n" {
			if isNewlineR(r) {
				if cur != "" {
					want = append(want, cur)
				}
				cur = ""
			} else {
				cur += string(r)
			}
		}
		got := []string{}
		for _, ln := range lines {
			txt := ""
			for _, sp := range ln.spans {
				txt += sp.text
			}
			got = append(got, txt)
		}
		if strings.Join(got, "\x00") != strings.Join(want, "\x00") {
			c.Fail("textline-chars", fmt.Sprintf("lines %q, expected %q", got, want), rp)
			continue
		}
		for li := 1; li < len(lines); li++ {
			if lines[li].y <= lines[li-1].y {
				c.Fail("textline-lines-not-monotone", fmt.Sprintf("line %d at %g, line %d at %g", li-1, lines[li-1].y, li, lines[li].y), rp)
			}
		}
		for li, ln := range lines {
			n := len(ln.spans)
			levels, xs, ws := make([]int, n), make([]float64, n), make([]float64, n)
			total := 0.0
			lo, hi := math.Inf(1), math.Inf(-1)
			for i, sp := range ln.spans {
				levels[i], xs[i], ws[i] = sp.level, sp.x, sp.w
				total += sp.w
				lo, hi = math.Min(lo, sp.x), math.Max(hi, sp.x+sp.w)
			}
			multi := ""
			if n > 1 {
				multi = ":multi-span"
				c.Count("textline:multi-span-line")
			}
			x0 := 0.0
			switch halign {
			case canvas.Center:
				x0 = -total / 2
			case canvas.Right:
				x0 = -total
			}
			if v := judgeReorder(levels, x0, ws, xs); v != "" {
				c.Fail("textline-"+v+":"+halign.String()+multi+":"+levelShape(levels), fmt.Sprintf("line %d: spans x=%v w=%v levels %v do not tile [%g,%g) in visual order %v", li, xs, ws, levels, x0, x0+total, visualOrder(levels)), rp)
			}
		}
	}
}
