package main

// Whole-layout oracle: real fonts, multi-script strings, widths, alignments, indents. The laid-out
// Text is judged from the mathematical statement of the property using only what Text exposes
// (WalkLines, Overflows, Bounds, Heights) and the input; the glyph/item/break recomputation through
// the public text.* functions is used (a) to tie the Lean model of the line slicing to the real
// ToText ('=' on the glyph range of every line) and (b) for the justification tolerance.

import (
	"fmt"
	"math"
	"os"
	"sort"
	"strings"
	"unicode/utf8"

	"github.com/tdewolff/canvas"
	"github.com/tdewolff/canvas/text"
	"verifharness/hc"
)

var latinWords = []string{"In", "olden", "times", "when", "wish\u00ading", "still", "helped", "one,", "there", "lived", "a", "king;", "beau\u00adti\u00adful", "daugh\u00adters.",
	"young\u00adest", "lime-tree", "well-known", "it\u00adself", "aston\u00adished!", "(so)", "\"much\"", "NASA.", "Dr.", "x", "supercalifragilistic", "un\u00adder", "e.g.:", "a\u200bb\u200bc", "no\u00a0break", "word\u2060joiner", "A", "I", "fi", "ffl"}
var hebrewWords = []string{"שלום", "עולם", "אבג", "דה", "טוב,", "בראשית"}
var arabicWords = []string{"مرحبا", "بالعالم", "ابت", "١٢٣", "لا", "كتاب."}
var cjkWords = []string{"漢字", "日本語のテキスト", "中文", "かな", "タイプ", "。"}
var otherWords = []string{"αβγ", "жзик", "123", "4,5", "(12)", "ไทย", "éa", "λόγος"}
var bidiCtl = []string{"\u202a", "\u202b", "\u202c", "\u2067", "\u2066", "\u2069", "\u200f", "\u200e"}

type piece struct {
	s    string
	face int
}

type layoutCase struct {
	pieces      []piece
	faces       []*canvas.FontFace
	faceDesc    []string
	width       float64
	height      float64
	halign      canvas.TextAlign
	valign      canvas.TextAlign
	indent      float64
	lineStretch float64
	profile     string
	idx         int
}

func (lc *layoutCase) log() string {
	var sb strings.Builder
	for _, p := range lc.pieces {
		sb.WriteString(p.s)
	}
	return sb.String()
}

func (lc *layoutCase) replay() map[string]any {
	ps := []string{}
	for _, p := range lc.pieces {
		ps = append(ps, fmt.Sprintf("%d:%q", p.face, p.s))
	}
	return map[string]any{"pieces": ps, "faces": lc.faceDesc, "width": lc.width, "height": lc.height, "halign": lc.halign.String(), "valign": lc.valign.String(),
		"indent": lc.indent, "lineStretch": lc.lineStretch, "case": lc.idx, "text": fmt.Sprintf("%q", lc.log())}
}

func genText(c *hc.Ctx, lc *layoutCase) {
	profile := []string{"latin", "latin", "latin-hyph", "rtl", "mixed", "cjk", "spaces", "newlines", "mixed"}[c.Intn(9)]
	lc.profile = profile
	nw := 1 + c.Intn(14)
	if c.Chance(0.15) {
		nw = 1 + c.Intn(3)
	}
	if c.Chance(0.1) {
		nw = 15 + c.Intn(15)
	}
	face := 0
	var cur strings.Builder
	flush := func() {
		if cur.Len() > 0 {
			lc.pieces = append(lc.pieces, piece{cur.String(), face})
			cur.Reset()
		}
	}
	pick := func(p []string) string { return p[c.Intn(len(p))] }
	if c.Chance(0.08) {
		cur.WriteString([]string{" ", "  ", "\u3000", "\t"}[c.Intn(4)])
	}
	if profile == "rtl" && c.Chance(0.7) {
		cur.WriteString(pick(hebrewWords) + " ")
	}
	for w := 0; w < nw; w++ {
		if len(lc.faces) > 1 && c.Chance(0.25) {
			flush()
			face = c.Intn(len(lc.faces))
		}
		u := c.Float()
		switch profile {
		case "latin":
			cur.WriteString(pick(latinWords))
		case "latin-hyph":
			if u < 0.6 {
				cur.WriteString("hy\u00adphen\u00adat\u00aded")
			} else {
				cur.WriteString(pick(latinWords))
			}
		case "rtl":
			switch {
			case u < 0.35:
				cur.WriteString(pick(hebrewWords))
			case u < 0.6:
				cur.WriteString(pick(arabicWords))
			case u < 0.8:
				cur.WriteString(pick(latinWords))
			case u < 0.9:
				cur.WriteString(pick(otherWords))
			default:
				cur.WriteString(pick(bidiCtl))
			}
		case "cjk":
			if u < 0.7 {
				cur.WriteString(pick(cjkWords))
			} else {
				cur.WriteString(pick(latinWords))
			}
		case "spaces", "newlines":
			cur.WriteString(pick(latinWords))
		default:
			switch {
			case u < 0.4:
				cur.WriteString(pick(latinWords))
			case u < 0.55:
				cur.WriteString(pick(hebrewWords))
			case u < 0.65:
				cur.WriteString(pick(arabicWords))
			case u < 0.8:
				cur.WriteString(pick(cjkWords))
			default:
				cur.WriteString(pick(otherWords))
			}
		}
		if w == nw-1 {
			break
		}
		// separator
		v := c.Float()
		switch {
		case profile == "spaces" && v < 0.6:
			cur.WriteString([]string{"  ", "\u00a0", "\u3000", "\u200b", "\u2003", " \t", "   ", "\u00ad", " \u00ad", "\u00ad\u00ad", "\u2009"}[c.Intn(11)])
		case profile == "newlines" && v < 0.5:
			cur.WriteString([]string{"\n", "\r\n", "\n\n", "\u2028", "\r", " \n", "\n ", "\r\n\r\n", "\f", "\u0085"}[c.Intn(10)])
		case profile == "cjk" && v < 0.5:
			// no separator between ideographs
		case v < 0.04:
			cur.WriteString("\n")
		case v < 0.06:
			cur.WriteString("\r\n")
		case v < 0.09:
			cur.WriteString("  ")
		case v < 0.11:
			cur.WriteString("\u00a0")
		case v < 0.13:
			cur.WriteString("\u3000")
		case v < 0.15:
			cur.WriteString("\u200b")
		default:
			cur.WriteString(" ")
		}
	}
	if c.Chance(0.08) {
		cur.WriteString([]string{" ", "  ", "\n", "\u3000"}[c.Intn(4)])
	}
	flush()
}

func genCase(c *hc.Ctx) *layoutCase {
	lc := &layoutCase{}
	nf := 1
	if c.Chance(0.3) {
		nf = 2 + c.Intn(2)
	}
	for i := 0; i < nf; i++ {
		fi := c.Intn(len(fonts))
		if bidiFont != nil && c.Chance(0.35) {
			fi = len(fonts) - 1
		}
		size := []float64{8, 10, 12, 14, 9.5, 18}[c.Intn(6)]
		lc.faces = append(lc.faces, fonts[fi].Face(size, canvas.Black))
		name := "system-DejaVuSans"
		if fi < len(fontNames) {
			name = fontNames[fi]
		}
		lc.faceDesc = append(lc.faceDesc, fmt.Sprintf("%s@%gpt", name, size))
	}
	genText(c, lc)
	switch c.Intn(6) {
	case 0:
		lc.width = 0
	case 1:
		lc.width = c.Range(8, 30)
	case 2, 3:
		lc.width = c.Range(30, 90)
	case 4:
		lc.width = float64(20 + 5*c.Intn(20))
	default:
		lc.width = c.Range(90, 250)
	}
	lc.halign = []canvas.TextAlign{canvas.Left, canvas.Right, canvas.Center, canvas.Justify}[c.Intn(4)]
	lc.valign = canvas.Top
	if c.Chance(0.4) {
		lc.height = 2000
		lc.valign = []canvas.TextAlign{canvas.Top, canvas.Center, canvas.Bottom, canvas.Justify, canvas.Middle}[c.Intn(5)]
	}
	if c.Chance(0.35) {
		lc.indent = float64(c.Intn(48)) / 4
	}
	if c.Chance(0.3) {
		lc.lineStretch = []float64{0.2, 0.5, 1, -0.1}[c.Intn(4)]
	}
	return lc
}

// recomputed pipeline (public functions + the shaper hook): runs, logical glyphs, items, breaks
type runInfo struct {
	face  *canvas.FontFace
	level int
	start int // first glyph
}

type pipeline struct {
	glyphs   []text.Glyph
	runs     []runInfo
	runeFace []int // intended face of every rune
	items    []text.Item
	breaks   []int
	ratios   []float64
	widths   []float64 // Breakpoint.Width (NaN for width 0)
	ok       bool
}

func recompute(lc *layoutCase) *pipeline {
	p := &pipeline{ok: true}
	log := lc.log()
	runes := []rune(log)
	for _, pc := range lc.pieces {
		for range []rune(pc.s) {
			p.runeFace = append(p.runeFace, pc.face)
		}
	}
	levels := text.EmbeddingLevels(runes)
	byteOff := make([]int, len(runes)+1)
	{
		j := 0
		for i := range log {
			byteOff[j] = i
			j++
		}
		byteOff[len(runes)] = len(log)
	}
	// ToText starts a new run wherever indexer.index changes, i.e. at every distinct face location
	// (two consecutive pieces written with the same face are still two runs)
	isLoc := map[int]bool{}
	for _, l := range canvas.VerifC16Locs(buildRT(lc)) {
		isLoc[l] = true
	}
	for i := 0; i < len(runes); {
		j := i + 1
		for j < len(runes) && p.runeFace[j] == p.runeFace[i] && !isLoc[j] {
			j++
		}
		face := lc.faces[p.runeFace[i]]
		off := byteOff[i]
		for _, item := range text.ScriptItemizer(runes[i:j], levels[i:j]) {
			dir := text.LeftToRight
			if item.Level%2 == 1 {
				dir = text.RightToLeft
			}
			gs := canvas.VerifC16Shape(face, item.Text, dir, item.Script)
			for k := range gs {
				gs[k].SFNT = face.Font.SFNT
				gs[k].Size = face.Size
				gs[k].Script = item.Script
				gs[k].Cluster += uint32(off)
			}
			if dir == text.RightToLeft {
				for a, b := 0, len(gs)-1; a < b; a, b = a+1, b-1 {
					gs[a], gs[b] = gs[b], gs[a]
				}
			}
			p.runs = append(p.runs, runInfo{face, item.Level, len(p.glyphs)})
			p.glyphs = append(p.glyphs, gs...)
			off += len(item.Text)
		}
		i = j
	}
	align := text.Left
	if lc.halign == canvas.Justify {
		align = text.Justified
	}
	p.items = text.GlyphsToItems(p.glyphs, lc.indent, align)
	if len(p.items) > 0 {
		if lc.width != 0 {
			items := append([]text.Item{}, p.items...)
			brs, ok := text.Linebreak(items, lc.width, 0)
			p.ok = ok
			for _, b := range brs {
				p.breaks = append(p.breaks, b.Position)
				p.ratios = append(p.ratios, b.Ratio)
				p.widths = append(p.widths, b.Width)
			}
		} else {
			for i, it := range p.items {
				if it.Type == text.PenaltyType && it.Penalty <= -text.Infinity {
					p.breaks = append(p.breaks, i)
					p.ratios = append(p.ratios, 0)
					p.widths = append(p.widths, math.NaN())
				}
			}
		}
	}
	return p
}

type spanObs struct {
	x, w     float64
	text     string
	face     *canvas.FontFace
	level    int
	nGlyphs  int
	firstCl  uint32 // cluster of the logically first glyph
	lastText rune   // Text of the logically last glyph
	lastID   uint16
	glyphTxt []rune // glyph texts in logical order
	advUnits int64  // sum of XAdvance
	optUnits int64  // XAdvance of U+00AD / U+200B glyphs shown inside the span
	glyphAdv []int32 // XAdvance of every glyph, logical order
}

type lineObs struct {
	y     float64
	spans []spanObs
}

func observe(t *canvas.Text) []lineObs {
	var lines []lineObs
	t.WalkLines(func(y float64, spans []canvas.TextSpan) {
		lo := lineObs{y: -y}
		for _, s := range spans {
			so := spanObs{x: s.X, w: s.Width, text: s.Text, face: s.Face, level: s.Level, nGlyphs: len(s.Glyphs)}
			rtl := s.Direction == text.RightToLeft
			for k := range s.Glyphs {
				g := s.Glyphs[k]
				if rtl {
					g = s.Glyphs[len(s.Glyphs)-1-k]
				}
				so.glyphTxt = append(so.glyphTxt, g.Text)
				so.glyphAdv = append(so.glyphAdv, g.XAdvance)
				so.advUnits += int64(g.XAdvance)
				if g.Text == 0xAD || g.Text == 0x200B {
					so.optUnits += int64(g.XAdvance)
				}
				if k == 0 {
					so.firstCl = g.Cluster
				}
				so.lastText, so.lastID = g.Text, g.ID
			}
			lo.spans = append(lo.spans, so)
		}
		lines = append(lines, lo)
	})
	return lines
}

func droppable(r rune) bool { return isSpaceR(r) || isNewlineR(r) || r == 0x200B }

func newlineUnits(s string) int {
	n := 0
	rs := []rune(s)
	for i, r := range rs {
		if isNewlineR(r) && !(r == '\n' && i > 0 && rs[i-1] == '\r') {
			n++
		}
	}
	return n
}

// genFit: a box height that cuts the text (single face): the lines kept, their baselines, Height and
// Text.Text are tied to the stacking model; the kept lines must lie inside the box.
func genFit(c *hc.Ctx) {
	for it := 0; it < c.N/4+1; it++ {
		lc := genCase(c)
		lc.faces, lc.faceDesc = lc.faces[:1], lc.faceDesc[:1]
		for i := range lc.pieces {
			lc.pieces[i].face = 0
		}
		if lc.log() == "" {
			continue
		}
		m := lc.faces[0].Metrics()
		lh := (m.Ascent + m.Descent + m.LineGap) * (1 + lc.lineStretch)
		lc.height = lh * c.Range(0.3, 6)
		if c.Chance(0.15) { // exactly k lines high
			lc.height = m.Ascent + m.Descent + lh*float64(c.Intn(4))
		}
		lc.valign = []canvas.TextAlign{canvas.Top, canvas.Top, canvas.Center, canvas.Bottom, canvas.Justify}[c.Intn(5)]
		lc.idx = it
		rp := lc.replay()
		var t *canvas.Text
		if msg := hc.Try(func() {
			t = buildRT(lc).ToText(lc.width, lc.height, lc.halign, lc.valign, lc.indent, lc.lineStretch)
		}); msg != "" {
			c.Fail("fit-panic", "ToText panicked: "+msg, rp)
			continue
		}
		c.Evals++
		lines := observe(t)
		p := recompute(lc)
		c.Count("fit:cases")
		if os.Getenv("C16_DEBUGFIT") != "" && len(lines) < len(p.breaks) {
			fmt.Fprintf(os.Stderr, "FIT lines=%d breaks=%v Text=%q height=%g valign=%v %v\n", len(lines), p.breaks, t.Text, lc.height, lc.valign, rp)
		}
		if len(lines) < len(p.breaks) {
			c.Count("fit:text-cut")
		}
		if len(lines) == 0 {
			c.Count("fit:no-line-fits")
		}
		if len(lines) > len(p.breaks) {
			c.Fail("fit-line-count", fmt.Sprintf("%d lines for %d breakpoints", len(lines), len(p.breaks)), rp)
			continue
		}
		emitStack(c, lc, t, lines, len(p.breaks), lc.faces[0])
		if !strings.HasPrefix(lc.log(), t.Text) {
			c.Fail("fit-text-not-prefix", fmt.Sprintf("Text.Text %q is not a prefix of the input", t.Text), rp)
			continue
		}
		// the text the Text object says it holds is what its lines show (plus dropped line-edge characters)
		emitConserveKind(c, t.Text, lines, "conserve-cut")
		// ... and all of the input when nothing was cut
		if len(lines) == len(p.breaks) && t.Text != lc.log() {
			c.Fail("fit-text-not-whole", fmt.Sprintf("all %d lines fit but Text.Text is %q", len(lines), t.Text), rp)
		}
		if lc.valign == canvas.Top {
			for li, ln := range lines {
				if ln.y+m.Descent > lc.height+1e-9*(1+lc.height) {
					c.Fail("fit-line-outside-box", fmt.Sprintf("line %d reaches %g, box height %g", li, ln.y+m.Descent, lc.height), rp)
				}
			}
		}
	}
}

func genLayout(c *hc.Ctx) {
	n := c.N
	for it := 0; it < n; it++ {
		lc := genCase(c)
		lc.idx = it
		dumpThis = os.Getenv("C16_DUMP") == fmt.Sprint(it)
		layoutOne(c, lc, it < 3)
	}
}

var dumpThis bool

func dump(lc *layoutCase, t *canvas.Text, lines []lineObs) {
	fmt.Fprintf(os.Stderr, "CASE %v\nOverflows=%v\n", lc.replay(), t.Overflows)
	for li, ln := range lines {
		fmt.Fprintf(os.Stderr, " line %d y=%g\n", li, ln.y)
		for _, sp := range ln.spans {
			fmt.Fprintf(os.Stderr, "   x=%g w=%g end=%g level=%d %q glyphs=%q\n", sp.x, sp.w, sp.x+sp.w, sp.level, sp.text, string(sp.glyphTxt))
		}
	}
	p := recompute(lc)
	fmt.Fprintf(os.Stderr, " breaks %v ratios %v ok=%v\n items:", p.breaks, p.ratios, p.ok)
	for i, it := range p.items {
		fmt.Fprintf(os.Stderr, " %d:%v/%d", i, it, it.Size)
	}
	fmt.Fprintln(os.Stderr)
}

func buildRT(lc *layoutCase) *canvas.RichText {
	rt := canvas.NewRichText(lc.faces[0])
	for _, pc := range lc.pieces {
		rt.WriteFace(lc.faces[pc.face], pc.s)
	}
	return rt
}

func layoutOne(c *hc.Ctx, lc *layoutCase, sample bool) {
	log := lc.log()
	rp := lc.replay()
	var t *canvas.Text
	if msg := hc.Try(func() {
		t = buildRT(lc).ToText(lc.width, lc.height, lc.halign, lc.valign, lc.indent, lc.lineStretch)
	}); msg != "" {
		c.Fail("layout-panic", "ToText panicked: "+msg, rp)
		return
	}
	c.Evals++
	c.Count("layout:profile=" + lc.profile)
	c.Count("layout:halign=" + lc.halign.String())
	c.Count("layout:valign=" + lc.valign.String())
	c.Count(fmt.Sprintf("layout:faces=%d", len(lc.faces)))
	switch {
	case lc.width == 0:
		c.Count("layout:width=0(unbounded)")
	case lc.width < 30:
		c.Count("layout:width<30")
	case lc.width < 90:
		c.Count("layout:width<90")
	default:
		c.Count("layout:width>=90")
	}
	if lc.indent != 0 {
		c.Count("layout:indent!=0")
	}
	if t.Overflows {
		c.Count("layout:Overflows")
	}
	c.Distinct(fmt.Sprint(rp))
	lines := observe(t)
	if dumpThis {
		dump(lc, t, lines)
	}
	c.Count(fmt.Sprintf("layout:lines=%s", bucket(len(lines))))
	fail := func(kind, desc string) { c.Fail(kind, desc, rp) }
	// the character-conservation verdict is decided by the Lean specification (CV line); the Go walk below only
	// derives the gaps the later checks need, its own verdicts are counted for comparison
	shadow := func(kind, desc string) { c.Count("layout:go-shadow-verdict:" + strings.SplitN(kind, ":", 2)[0]) }
	emitConserve(c, log, lines)
	emitStack(c, lc, t, lines, len(lines), nil)
	emitBounds(c, t, lines)
	emitAlign(c, lc, lines)

	// ---- O1: every character once, in logical order; only line-edge whitespace dropped
	pos := 0
	lineStartByte := make([]int, len(lines)) // byte offset of the first shown character (or -1)
	gaps := make([]string, 0, len(lines)+1)  // dropped text before every non-empty line, then the tail
	emptiesBefore := []int{}
	nonEmpty := []int{}
	gapAfter := map[int]string{} // dropped text after a non-empty line
	empties := 0
	charsOK := true
	for li, ln := range lines {
		lineStartByte[li] = -1
		if len(ln.spans) == 0 {
			empties++
			continue
		}
		for si, sp := range ln.spans {
			if sp.text == "" {
				c.Count("layout:empty-span-text")
				continue
			}
			p := strings.Index(log[pos:], sp.text)
			if p < 0 {
				shadow("chars-lost-or-reordered", fmt.Sprintf("line %d span %d text %q does not occur after byte %d", li, si, sp.text, pos))
				charsOK = false
				break
			}
			if si > 0 && p != 0 {
				shadow("chars-dropped-inside-line", fmt.Sprintf("line %d span %d: %q skipped between spans", li, si, log[pos:pos+p]))
				charsOK = false
				break
			}
			if si == 0 {
				nonEmpty = append(nonEmpty, li)
				gaps = append(gaps, log[pos:pos+p])
				emptiesBefore = append(emptiesBefore, empties)
				empties = 0
				lineStartByte[li] = pos + p
			}
			pos += p + len(sp.text)
		}
		if !charsOK {
			break
		}
	}
	if charsOK {
		gaps = append(gaps, log[pos:])
		for k, li := range nonEmpty {
			gapAfter[li] = gaps[k+1]
		}
		gapStart := 0
		for gi, g := range gaps {
			// byte offset of this gap in log
			if gi > 0 {
				li := nonEmpty[gi-1]
				gapStart = lineStartByte[li]
				for _, sp := range lines[li].spans {
					gapStart += len(sp.text)
				}
			}
			_ = gapStart
			onlyShy := g != ""
			for _, r := range g {
				if r != 0xAD {
					onlyShy = false
				}
				// a soft hyphen next to the break that is not the break itself shows nothing and is dropped like U+200B
				if r != 0xAD && !droppable(r) {
					shadow("chars-lost", fmt.Sprintf("gap %d drops %q", gi, g))
					charsOK = false
					break
				}
			}
			// a gap of soft hyphens only: the break was at a soft hyphen, so the line before must end in one (shown as '-', see O2)
			if onlyShy && gi > 0 && charsOK {
				li := nonEmpty[gi-1]
				last := lines[li].spans[len(lines[li].spans)-1].text
				if !strings.HasSuffix(last, "\u00ad") {
					shadow("soft-hyphen-dropped-at-break", fmt.Sprintf("gap %d drops %q and line %d does not end in the soft hyphen", gi, g, li))
				}
			}
			if gi == 0 && g != "" && charsOK {
				shadow("chars-dropped-at-start", fmt.Sprintf("text before the first line dropped: %q", g))
			}
			// explicit newlines start a new line
			if gi > 0 && gi < len(emptiesBefore) && charsOK {
				if m := newlineUnits(g); m > 0 && emptiesBefore[gi] < m-1 {
					kind := "newline-lines-missing"
					if t.Overflows {
						kind += ":Overflows" // text.Linebreak's overflow fallback can skip a forced break (C17)
					}
					shadow(kind, fmt.Sprintf("gap %q has %d line separators but only %d empty lines", g, m, emptiesBefore[gi]))
				}
			}
		}
		for li, ln := range lines {
			for _, sp := range ln.spans {
				for _, r := range sp.text {
					if isNewlineR(r) {
						kind := "newline-inside-line"
						if t.Overflows {
							kind += ":Overflows" // forced break skipped by text.Linebreak's overflow fallback (C17)
						}
						shadow(kind, fmt.Sprintf("line %d shows a line separator in %q", li, sp.text))
					}
				}
			}
		}
	}

	// ---- O2: soft hyphens: '-' exactly at a break
	for li, ln := range lines {
		for si, sp := range ln.spans {
			rs := []rune(sp.text)
			lastOfLine := si == len(ln.spans)-1
			if len(sp.glyphTxt) == len(rs) { // one glyph per rune: positions comparable
				for k, r := range rs {
					if r == 0xAD {
						atEnd := lastOfLine && k == len(rs)-1 && li < len(lines)-1
						if sp.glyphTxt[k] == '-' && !atEnd {
							fail("hyphen-inside-line", fmt.Sprintf("line %d: soft hyphen shown as '-' inside %q", li, sp.text))
						}
						if atEnd && sp.glyphTxt[k] != '-' {
							kind := "hyphen-missing-at-break"
							fail(kind, fmt.Sprintf("line %d ends in a soft hyphen that is not shown as '-': %q", li, sp.text))
						}
						if atEnd && sp.glyphTxt[k] == '-' {
							c.Count("layout:hyphenated-break")
							if sp.lastID != sp.face.Font.GlyphIndex('-') {
								fail("hyphen-glyph-id", "hyphen glyph ID is not the face's '-'")
							}
						}
					}
				}
			}
		}
	}

	// ---- O4: lines stacked monotonically
	for li := 1; li < len(lines); li++ {
		if lines[li].y < lines[li-1].y-1e-9 {
			fail("lines-not-monotone", fmt.Sprintf("line %d at y=%g above line %d at y=%g", li, lines[li].y, li-1, lines[li-1].y))
			break
		}
	}
	if len(lc.faces) == 1 && lc.valign != canvas.Justify && len(lines) > 1 && lc.lineStretch >= 0 {
		m := lc.faces[0].Metrics()
		want := (m.Descent+m.LineGap)*(1+lc.lineStretch) + m.Ascent*(1+lc.lineStretch)
		for li := 1; li < len(lines); li++ {
			if d := lines[li].y - lines[li-1].y; math.Abs(d-want) > 1e-9*(1+want) {
				fail("line-advance", fmt.Sprintf("line %d advances by %g, line height with stretch is %g", li, d, want))
				break
			}
		}
	}

	// ---- O5: spans on a line do not overlap; O6: inside the box; O7: alignment
	maxMm := 0.0
	for _, f := range lc.faces {
		maxMm = math.Max(maxMm, f.MmPerEm)
	}
	for li, ln := range lines {
		if len(ln.spans) == 0 {
			continue
		}
		idx := make([]int, len(ln.spans))
		for i := range idx {
			idx[i] = i
		}
		sort.SliceStable(idx, func(a, b int) bool {
			sa, sb := ln.spans[idx[a]], ln.spans[idx[b]]
			if sa.x != sb.x {
				return sa.x < sb.x
			}
			return sa.w < sb.w // zero-width spans (format characters) first
		})
		lo, hi := math.Inf(1), math.Inf(-1)
		ng := 0
		hasRTL := false
		prevWide, overlapped := -1, false
		for _, i := range idx {
			sp := ln.spans[i]
			lo, hi = math.Min(lo, sp.x), math.Max(hi, sp.x+sp.w)
			ng += sp.nGlyphs
			if sp.level > 0 {
				hasRTL = true
			}
			if sp.w > 1e-9 { // zero-width spans (format characters, U+200B) cannot overlap anything
				if prevWide >= 0 && !overlapped {
					pr := ln.spans[prevWide]
					if pr.x+pr.w > sp.x+1e-7 {
						lv := []int{}
						for _, s := range ln.spans {
							lv = append(lv, s.level)
						}
						fail("span-overlap:"+levelShape(lv), fmt.Sprintf("line %d: span %q [%g,%g] overlaps %q [%g,%g], levels %v", li, pr.text, pr.x, pr.x+pr.w, sp.text, sp.x, sp.x+sp.w, lv))
						overlapped = true
					}
				}
				prevWide = i
			}
			if want := sp.face.MmPerEm * float64(sp.advUnits); math.Abs(sp.w-want) > 1e-9*(1+want) {
				fail("span-width", fmt.Sprintf("line %d span %q Width %g but its glyph advances sum to %g", li, sp.text, sp.w, want))
			}
		}
		_ = hasRTL
		lv := []int{}
		for _, s := range ln.spans {
			lv = append(lv, s.level)
		}
		// position failures on lines with nested embedding levels are consequences of reorderSpans'
		// handling of levels >= 2 and are classified as such
		sfx := ""
		if sh := levelShape(lv); sh != "levels<=1" {
			sfx = ":" + sh
		}
		// whitespace directly before an explicit line separator
		if g := gapAfter[li]; sfx == "" {
			rs := []rune(g)
			for k := 0; k+1 < len(rs); k++ {
				if isSpaceR(rs[k]) && isNewlineR(rs[k+1]) {
					sfx = ":space-before-newline"
				} else if sfx == "" && isSpaceR(rs[k]) && (isSpaceR(rs[k+1]) || rs[k+1] == 0x200B) {
					sfx = ":consecutive-spaces"
				}
			}
		}
		tol := 1e-7
		// a space shown directly before a hyphenated break is glue inside the line: the breaker's ratio is
		// applied to it in whole font units also for ragged alignments
		spaceBeforeHyphen := false
		if len(ln.spans) > 0 {
			rs := []rune(ln.spans[len(ln.spans)-1].text)
			if n := len(rs); n > 0 && rs[n-1] == 0xAD {
				n--
				for n > 0 && (rs[n-1] == 0xAD || rs[n-1] == 0x200B) {
					n--
				}
				spaceBeforeHyphen = n > 0 && isSpaceR(rs[n-1])
			}
		}
		if spaceBeforeHyphen {
			c.Count("layout:space-shown-before-hyphenated-break")
		}
		if lc.halign == canvas.Justify || spaceBeforeHyphen {
			// adjusted advances are whole font units: int32(adv*XAdvance+0.5) is off by < 1.5 units
			// per glue glyph (the conversion truncates towards zero for shrinking)
			tol = 1e-7 + 1.5*float64(ng)*maxMm
		}
		first := li == 0
		ind := 0.0
		if first {
			ind = lc.indent
		}
		optObs := 0.0
		for _, sp := range ln.spans {
			optObs += sp.face.MmPerEm * float64(sp.optUnits)
		}
		if lc.width != 0 && !t.Overflows {
			if (hi > lc.width+tol || lo < -tol) && sfx == "" && optObs > 0 && hi <= lc.width+tol+optObs && lo >= -tol-optObs {
				// U+200B / U+00AD glyphs inside a line keep their shaped advance, which the breaker does not count
				fail("line-exceeds-box:"+lc.halign.String()+":by-optional-break-glyph-advance", fmt.Sprintf("line %d spans [%g,%g], box [0,%g], optional-break glyphs in the line advance %g", li, lo, hi, lc.width, optObs))
			} else if hi > lc.width+tol || lo < -tol {
				fail("line-exceeds-box:"+lc.halign.String()+sfx, fmt.Sprintf("line %d spans [%g,%g] outside [0,%g] and Overflows is false", li, lo, hi, lc.width))
			}
		}
		switch lc.halign {
		case canvas.Left:
			if math.Abs(lo-ind) > 1e-7 {
				fail("align-left"+sfx, fmt.Sprintf("line %d starts at %g, expected %g", li, lo, ind))
			}
		case canvas.Right, canvas.Center:
			if lc.width == 0 {
				break
			}
			if lc.halign == canvas.Right && math.Abs(hi-lc.width) > 1e-7 {
				fail("align-right"+sfx, fmt.Sprintf("line %d ends at %g, expected %g", li, hi, lc.width))
			}
			if lc.halign == canvas.Center && math.Abs((lo+hi)/2-(lc.width+ind)/2) > 1e-7 {
				fail("align-center"+sfx, fmt.Sprintf("line %d is centred at %g, expected %g", li, (lo+hi)/2, (lc.width+ind)/2))
			}
		case canvas.Justify:
			if math.Abs(lo-ind) > 1e-7 {
				fail("align-justify-start"+sfx, fmt.Sprintf("line %d starts at %g, expected %g", li, lo, ind))
			}
		}
	}

	// ---- O8: Bounds and Heights enclose all spans
	b := t.Bounds()
	top, bottom := t.Heights()
	any := false
	for li, ln := range lines {
		for _, sp := range ln.spans {
			any = true
			m := sp.face.Metrics()
			x0, x1, y0, y1 := sp.x, sp.x+sp.w, -ln.y-m.Descent, -ln.y+m.Ascent
			e := 1e-9 * (1 + math.Abs(x1) + math.Abs(y0))
			if x0 < b.X0-e || x1 > b.X1+e || y0 < b.Y0-e || y1 > b.Y1+e {
				fail("bounds", fmt.Sprintf("line %d span %q box [%g,%g]x[%g,%g] outside Bounds %v", li, sp.text, x0, x1, y0, y1, b))
			}
			if y1 > top+e || -y0 > bottom+e {
				fail("heights", fmt.Sprintf("line %d span %q reaches [%g,%g], Heights = (%g,%g)", li, sp.text, y1, -y0, top, bottom))
			}
		}
	}
	if !any && (b != canvas.Rect{}) {
		fail("bounds-empty", "Bounds of a text without spans is not empty")
	}

	// ---- tie of the Lean slicing model to ToText + span faces + justification
	p := recompute(lc)
	if len(p.breaks) != len(lines) {
		// only possible when the recomputed pipeline differs from ToText's
		c.Count("layout:recompute-line-count-differs")
		fail("slice-line-count", fmt.Sprintf("%d lines, %d breakpoints recomputed through text.GlyphsToItems/Linebreak", len(lines), len(p.breaks)))
		return
	}
	if t.Overflows != !p.ok {
		fail("overflows-flag", fmt.Sprintf("Overflows=%v but text.Linebreak ok=%v", t.Overflows, p.ok))
	}
	if len(p.items) == 0 {
		return
	}
	var sb strings.Builder
	fmt.Fprintf(&sb, "SL %d", len(p.glyphs))
	for _, it := range p.items {
		fmt.Fprintf(&sb, " %c%d", "BGP"[int(it.Type)], it.Size)
	}
	sb.WriteString(" |")
	for g, gl := range p.glyphs {
		if gl.Text == 0xAD {
			fmt.Fprintf(&sb, " %d", g)
		}
	}
	sb.WriteString(" |")
	for _, bp := range p.breaks {
		fmt.Fprintf(&sb, " %d", bp)
	}
	var ob strings.Builder
	ob.WriteString("ok")
	prevStop := 0
	ranges := make([][3]int, len(lines)) // start, stop, hyphen shown
	for li, ln := range lines {
		ranges[li] = [3]int{-1, -1, 0}
		cnt := 0
		for _, sp := range ln.spans {
			cnt += sp.nGlyphs
		}
		if cnt == 0 {
			ob.WriteString(" e")
			continue
		}
		start := -1
		for g := prevStop; g < len(p.glyphs); g++ {
			if p.glyphs[g].Cluster == ln.spans[0].firstCl {
				start = g
				break
			}
		}
		if start < 0 {
			ob.WriteString(" ?")
			continue
		}
		stop := start + cnt
		last := ln.spans[len(ln.spans)-1]
		hy := stop-1 < len(p.glyphs) && p.glyphs[stop-1].Text == 0xAD && last.lastText == '-'
		fmt.Fprintf(&ob, " %d:%d:%c", start, stop, b01(hy))
		ranges[li] = [3]int{start, stop, int(b01(hy) - '0')}
		prevStop = stop
	}
	if f := os.Getenv("C16_FINDSL"); f != "" && f == sb.String() {
		dump(lc, t, lines)
	}
	if sb.Len() < 6000 {
		c.Case(sb.String(), "=", ob.String())
		c.Count("sl:cases")
		if sample {
			c.Sample(fmt.Sprintf("%q w=%g %v -> ", log, lc.width, lc.halign) + ob.String())
		}
	} else {
		c.Count("sl:skipped-long")
	}

	emitGlue(c, lc, p, lines, ranges)
	// branches of the slicing loop reached by this layout
	{
		prevB := -1
		for li := range lines {
			bp := p.breaks[li]
			a0 := prevB + 1
			lead := 0
			for a0 < bp && p.items[a0].Type != text.BoxType {
				lead += p.items[a0].Size
				a0++
			}
			if lead > 0 {
				c.Count("sl-branch:leading-glyphs-skipped")
			}
			if a0 == bp {
				c.Count("sl-branch:line-without-box")
			}
			trail := 0
			for k := bp - 1; k >= a0 && p.items[k].Type != text.BoxType; k-- {
				trail += p.items[k].Size
			}
			if trail > 0 {
				c.Count("sl-branch:sized-glue-or-penalty-before-break")
			}
			it := p.items[bp]
			switch {
			case it.Type == text.GlueType:
				c.Count("sl-branch:break-at-glue")
			case it.Penalty <= -text.Infinity:
				c.Count(fmt.Sprintf("sl-branch:break-forced(size=%d)", it.Size))
			case it.Size == 1 && ranges[li][2] == 1:
				c.Count("sl-branch:break-hyphenated")
			case it.Size == 1:
				c.Count("sl-branch:break-at-zwsp-penalty")
			default:
				c.Count("sl-branch:break-at-penalty(size=0)")
			}
			if bp+1 < len(p.items) && p.items[bp+1].Type == text.GlueType {
				c.Count("sl-branch:glue-absorbed-after-break")
			}
			prevB = bp
		}
	}

	// the breaker's measure of a line is the width of what the line shows (hyphen included): this is what
	// makes "fits the box" of text.Linebreak mean "inside the box" for the laid-out line. Judged where the
	// two notions coincide: no glue between the last box and the break (gap of at most one character), no
	// optional-break glyph with an advance inside the line.
	if lc.width != 0 && !t.Overflows {
		for li, ln := range lines {
			rg := ranges[li]
			if rg[0] < 0 || rg[1] > len(p.glyphs) || len(ln.spans) == 0 || len([]rune(gapAfter[li])) > 1 || math.IsNaN(p.widths[li]) {
				continue
			}
			nat, opt := 0.0, 0.0
			for g := rg[0]; g < rg[1]; g++ {
				gl := p.glyphs[g]
				adv := float64(gl.XAdvance) * gl.Size / float64(gl.SFNT.Head.UnitsPerEm)
				if g == rg[1]-1 && rg[2] == 1 {
					adv = hyphenWidth(gl)
				} else if gl.Text == 0xAD || gl.Text == 0x200B {
					opt += adv
				}
				nat += adv
			}
			last := []rune(ln.spans[len(ln.spans)-1].text)
			if opt > 1e-9 || (rg[2] == 1 && len(last) > 1 && (isSpaceR(last[len(last)-2]) || last[len(last)-2] == 0xAD || last[len(last)-2] == 0x200B)) {
				continue
			}
			ind := 0.0
			if li == 0 {
				ind = lc.indent
			}
			c.Count("layout:breaker-width-judged")
			if math.Abs(p.widths[li]-ind-nat) > 1e-7*(1+nat) {
				kind := "breaker-width"
				if rg[2] == 1 {
					kind += ":hyphenated"
				}
				fail(kind, fmt.Sprintf("line %d: text.Linebreak reports width %g, the line shows %g (+ indent %g)", li, p.widths[li], nat, ind))
			}
		}
	}

	// span faces: every shown character carries the face it was written with
	if charsOK && utf8.ValidString(log) {
		runeAt := map[int]int{}
		{
			j := 0
			for i := range log {
				runeAt[i] = j
				j++
			}
		}
		pos := 0
		for li, ln := range lines {
			for _, sp := range ln.spans {
				if sp.text == "" {
					continue
				}
				q := strings.Index(log[pos:], sp.text)
				if q < 0 {
					break
				}
				ri := runeAt[pos+q]
				for k := range []rune(sp.text) {
					if ri+k < len(p.runeFace) && lc.faces[p.runeFace[ri+k]] != sp.face {
						fail("span-face", fmt.Sprintf("line %d span %q is set in another face than it was written with", li, sp.text))
						break
					}
				}
				pos += q + len(sp.text)
			}
		}
	}

	// justification: a line that is not the last of its paragraph ends at the width when the needed
	// ratio is within [-1, Tolerance]; otherwise it keeps its natural width
	if lc.halign == canvas.Justify && lc.width != 0 && !t.Overflows {
		prevB := -1
		for li, ln := range lines {
			bp := p.breaks[li]
			a0 := prevB + 1
			prevB = bp
			if len(ln.spans) == 0 {
				continue
			}
			forced := p.items[bp].Type == text.PenaltyType && p.items[bp].Penalty <= -text.Infinity
			// natural measure of the line by direct summation (Knuth-Plass: skip leading discardables)
			for a0 < bp && p.items[a0].Type != text.BoxType {
				a0++
			}
			nat, st, sh := 0.0, 0.0, 0.0
			nGlue := 0
			for k := a0; k < bp; k++ {
				itm := p.items[k]
				if itm.Type == text.BoxType {
					nat += itm.Width
				} else if itm.Type == text.GlueType {
					nat += itm.Width
					st += itm.Stretch
					sh += itm.Shrink
					nGlue += itm.Size
				}
			}
			if p.items[bp].Type == text.PenaltyType {
				nat += p.items[bp].Width
			}
			hi, lo := math.Inf(-1), math.Inf(1)
			for _, sp := range ln.spans {
				hi = math.Max(hi, sp.x+sp.w)
				lo = math.Min(lo, sp.x)
			}
			// width of the shown glyphs at their shaped (unadjusted) advances, and the part of it that
			// belongs to optional-break glyphs (U+200B, U+00AD) inside the line: the breaker counts
			// those as penalties of width 0
			natG, optAdv := math.NaN(), 0.0
			if rg := ranges[li]; rg[0] >= 0 && rg[1] <= len(p.glyphs) {
				natG = 0
				for g := rg[0]; g < rg[1]; g++ {
					gl := p.glyphs[g]
					adv := float64(gl.XAdvance) * gl.Size / float64(gl.SFNT.Head.UnitsPerEm)
					if g == rg[1]-1 && rg[2] == 1 {
						adv = hyphenWidth(gl)
					} else if gl.Text == 0xAD || gl.Text == 0x200B {
						optAdv += adv
					}
					natG += adv
				}
			}
			if optAdv > 1e-9 {
				c.Count("justify:line-with-optional-break-glyph-of-nonzero-advance")
			}
			if dumpThis {
				fmt.Fprintf(os.Stderr, "JUST line %d items [%d,%d] nat=%g st=%g sh=%g hi=%g\n", li, a0, bp, nat, st, sh, hi)
			}
			tol := 1e-7 + 1.5*float64(nGlue+1)*maxMm
			lvj := []int{}
			for _, sp := range ln.spans {
				lvj = append(lvj, sp.level)
			}
			jsfx := ""
			if sh := levelShape(lvj); sh != "levels<=1" {
				jsfx = ":" + sh
			}
			var r float64
			switch {
			case nat < lc.width && st > 0:
				r = (lc.width - nat) / st
			case nat > lc.width && sh > 0:
				r = (lc.width - nat) / sh
			case nat == lc.width:
				r = 0
			default:
				r = math.Inf(1)
			}
			if st >= text.Infinity {
				c.Count("justify:last-line-of-paragraph")
				if !forced {
					c.Count("justify:infinite-stretch-not-forced")
				}
				if hi > nat+tol {
					// Infinity is the finite number 1000, so the last line gets a small positive ratio
					c.Count("justify:last-line-slightly-stretched")
				}
				continue
			}
			const band = 1e-6
			switch {
			case r > -1+band && r < text.Tolerance-band:
				c.Count("justify:within-tolerance")
				if math.Abs(hi-optAdv-lc.width) > 1e-7+0.5*float64(nGlue+1)*maxMm {
					c.Count("justify:rounding>0.5unit/glyph")
				}
				if math.Abs(hi-optAdv-lc.width) > tol {
					fail("justify-not-at-width"+jsfx, fmt.Sprintf("line %d ends at %g, width %g, needed ratio %g", li, hi, lc.width, r))
				}
			case r < -1-band || r > text.Tolerance+band:
				c.Count("justify:outside-tolerance")
				if !math.IsNaN(natG) && math.Abs(hi-lo-natG) > tol {
					fail("justify-stretched-outside-tolerance"+jsfx, fmt.Sprintf("line %d is %g wide, its glyphs at their shaped advances %g, needed ratio %g", li, hi-lo, natG, r))
				}
			default:
				c.Count("justify:skip-boundary-band")
			}
		}
	}
}

func bucket(n int) string {
	switch {
	case n == 0:
		return "0"
	case n == 1:
		return "1"
	case n <= 3:
		return "2-3"
	case n <= 8:
		return "4-8"
	}
	return "9+"
}


// ---------------------------------------------------------------------------------------------
// raw observations for the Lean models / specifications

func runeClassChar(r rune) byte {
	switch {
	case isSpaceR(r):
		return 's'
	case r == '\r':
		return 'r'
	case r == '\n':
		return 'l'
	case isNewlineR(r):
		return 'n'
	case r == 0x200B:
		return 'z'
	case r == 0xAD:
		return 'h'
	}
	return 'c'
}

// emitConserve sends the rune classes of the text and the rune range of every span (from the glyph
// clusters, not by searching the text) to the Lean conservation specification.
func emitConserve(c *hc.Ctx, ref string, lines []lineObs) { emitConserveKind(c, ref, lines, "conserve") }

func emitConserveKind(c *hc.Ctx, ref string, lines []lineObs, kind string) {
	runeAt := make(map[int]int, len(ref)+1)
	n := 0
	var sb strings.Builder
	sb.WriteString("CV =")
	for i, r := range ref {
		runeAt[i] = n
		n++
		sb.WriteByte(runeClassChar(r))
	}
	runeAt[len(ref)] = n
	sb.WriteString(" |")
	for _, ln := range lines {
		for _, sp := range ln.spans {
			a, okA := runeAt[int(sp.firstCl)]
			b, okB := runeAt[int(sp.firstCl)+len(sp.text)]
			if !okA || !okB {
				a, b = n+1, n+1 // not on rune boundaries of the text: let the specification reject it
			}
			fmt.Fprintf(&sb, " %d:%d", a, b)
		}
		sb.WriteString(" /")
	}
	if sb.Len() < 8000 {
		c.Case(sb.String(), "!", kind)
		c.Count("cv:cases:" + kind)
	}
}

func vaChar(v canvas.TextAlign) byte {
	switch v {
	case canvas.Center, canvas.Middle:
		return 'C'
	case canvas.Bottom:
		return 'B'
	case canvas.Justify:
		return 'J'
	}
	return 'T'
}

// emitStack: heights of every line as ToText reads them (independently: maxima over the faces of the
// observed spans; the last run's face for a line without spans) -> baselines, Height, Heights().
// `total` lines were asked for; lines beyond the observed ones (cut by the box height) use `cutFace`.
func emitStack(c *hc.Ctx, lc *layoutCase, t *canvas.Text, lines []lineObs, total int, cutFace *canvas.FontFace) {
	if len(lc.pieces) == 0 || lc.log() == "" {
		return
	}
	lastFace := lc.faces[lc.pieces[len(lc.pieces)-1].face]
	var sb strings.Builder
	fmt.Fprintf(&sb, "ST %s %s %c", hc.H(1.0+lc.lineStretch), hc.H(lc.height), vaChar(lc.valign))
	for j := 0; j < total; j++ {
		asc, desc, bot, empty := 0.0, 0.0, 0.0, false
		if j < len(lines) && len(lines[j].spans) > 0 {
			for _, sp := range lines[j].spans {
				m := sp.face.Metrics()
				asc, desc, bot = math.Max(asc, m.Ascent), math.Max(desc, m.Descent), math.Max(bot, m.Descent+m.LineGap)
			}
		} else {
			f := lastFace
			if j >= len(lines) && cutFace != nil {
				f = cutFace
			}
			m := f.Metrics()
			asc, desc, bot = m.Ascent, m.Descent, m.Descent+m.LineGap
			empty = j < len(lines)
		}
		fmt.Fprintf(&sb, " %s %s %s %c", hc.H(asc), hc.H(desc), hc.H(bot), b01(empty))
	}
	var ob strings.Builder
	fmt.Fprintf(&ob, "%d", len(lines))
	for _, ln := range lines {
		ob.WriteString(" " + hc.H(ln.y))
	}
	top, bottom := t.Heights()
	fmt.Fprintf(&ob, " | %s | %s %s", hc.H(t.Height), hc.H(top), hc.H(bottom))
	c.Case(sb.String(), "=", ob.String())
	c.Count("st:cases")
	c.Count("st:valign=" + string(vaChar(lc.valign)))
	if total > len(lines) {
		c.Count("st:lines-cut-by-height")
	}
	if n := len(lines); n > 0 && len(lines[n-1].spans) == 0 {
		c.Count("st:last-line-empty")
	}
}

func emitBounds(c *hc.Ctx, t *canvas.Text, lines []lineObs) {
	var sb strings.Builder
	sb.WriteString("BD")
	for _, ln := range lines {
		for _, sp := range ln.spans {
			m := sp.face.Metrics()
			fmt.Fprintf(&sb, " %s %s %s %s %s", hc.H(sp.x), hc.H(sp.w), hc.H(ln.y), hc.H(m.Ascent), hc.H(m.Descent))
		}
	}
	if sb.Len() > 8000 {
		return
	}
	b := t.Bounds()
	c.Case(sb.String(), "=", hc.Hs(b.X0, b.Y0, b.X1, b.Y1))
	c.Count("bd:cases")
}

// emitGlue: the glue adjustment of every line: items of the line, the breaker's ratio and the shaped
// advances of its glyphs -> the advances the line shows.
func emitGlue(c *hc.Ctx, lc *layoutCase, p *pipeline, lines []lineObs, ranges [][3]int) {
	prevB := -1
	for li, ln := range lines {
		if li >= len(p.breaks) {
			break
		}
		bp := p.breaks[li]
		a0 := prevB + 1
		prevB = bp
		rg := ranges[li]
		if len(ln.spans) == 0 || rg[0] < 0 || rg[1] > len(p.glyphs) {
			continue
		}
		for a0 < bp && p.items[a0].Type != text.BoxType {
			a0++
		}
		ratio := p.ratios[li]
		if ratio == 0 && !c.Chance(0.1) {
			continue // unadjusted lines: a sample is enough
		}
		m := rg[1] - rg[0] - rg[2]
		var sb strings.Builder
		fmt.Fprintf(&sb, "GA %s %d |", hc.H(ratio), m)
		nglue := 0
		for _, it := range p.items[a0:bp] {
			fmt.Fprintf(&sb, " %c:%d:%s:%s:%s", "BGP"[int(it.Type)], it.Size, hc.H(it.Width), hc.H(it.Stretch), hc.H(it.Shrink))
			if it.Type == text.GlueType && it.Width > 0 {
				nglue++
			}
		}
		sb.WriteString(" |")
		for g := rg[0]; g < len(p.glyphs) && g < rg[0]+m+8; g++ {
			fmt.Fprintf(&sb, " %d", p.glyphs[g].XAdvance)
		}
		var ob strings.Builder
		ob.WriteString("a")
		k := 0
		for _, sp := range ln.spans {
			for _, a := range sp.glyphAdv {
				if k < m {
					fmt.Fprintf(&ob, " %d", a)
				}
				k++
			}
		}
		if sb.Len() < 8000 {
			c.Case(sb.String(), "=", ob.String())
			switch {
			case ratio > 0:
				c.Count("ga:stretched")
			case ratio < 0:
				c.Count("ga:shrunk")
			default:
				c.Count("ga:ratio=0")
			}
			if nglue == 0 {
				c.Count("ga:no-glue-with-width")
			}
		}
	}
}


// emitAlign: widths of the spans of a line -> X of every span (lines without right-to-left spans: there
// reorderSpans leaves the positions alone).
func emitAlign(c *hc.Ctx, lc *layoutCase, lines []lineObs) {
	h := map[canvas.TextAlign]byte{canvas.Left: 'L', canvas.Right: 'R', canvas.Center: 'C', canvas.Justify: 'J'}[lc.halign]
	for li, ln := range lines {
		if len(ln.spans) == 0 {
			continue
		}
		plain := true
		for _, sp := range ln.spans {
			if sp.level != 0 {
				plain = false
			}
		}
		if !plain {
			c.Count("al:skip-bidi-line")
			continue
		}
		var sb, ob strings.Builder
		fmt.Fprintf(&sb, "AL %c %s %s %c", h, hc.H(lc.width), hc.H(lc.indent), b01(li == 0))
		ob.WriteString("x")
		for _, sp := range ln.spans {
			sb.WriteString(" " + hc.H(sp.w))
			ob.WriteString(" " + hc.H(sp.x))
		}
		c.Case(sb.String(), "=", ob.String())
		c.Count("al:cases:" + string(h))
		if len(ln.spans) > 1 {
			c.Count("al:multi-span")
		}
	}
}
