// C16 harness: text layout bookkeeping — text.GlyphsToItems, the line slicing of RichText.ToText,
// reorderSpans, text.ScriptItemizer and indexer.index of the real code (build tag verif) against the
// Lean models (CanvasModel/C16.lean), plus an independent oracle on whole laid-out texts (layout.go).
package main

import (
	"fmt"
	"math"
	"os"
	"sort"
	"strings"
	"unicode"

	"github.com/tdewolff/canvas"
	"github.com/tdewolff/canvas/text"
	"verifharness/hc"
)

func main() { hc.Main("C16", run) }

func repoDir() string {
	if d := os.Getenv("VERIF_REPO"); d != "" {
		return d
	}
	return "/repo"
}

var fontNames = []string{"DejaVuSerif.ttf", "EBGaramond12-Regular.otf", "Dynalight-Regular.otf"}
var fonts []*canvas.Font
var bidiFont *canvas.Font // optional system font with Hebrew and Arabic glyphs

func loadFonts(c *hc.Ctx) {
	for _, n := range fontNames {
		f, err := canvas.LoadFontFile(repoDir()+"/resources/"+n, canvas.FontRegular)
		if err != nil {
			panic(fmt.Sprintf("cannot load bundled font %s: %v", n, err))
		}
		fonts = append(fonts, f)
	}
	if f, err := canvas.LoadFontFile("/usr/share/fonts/truetype/dejavu/DejaVuSans.ttf", canvas.FontRegular); err == nil {
		bidiFont = f
		fonts = append(fonts, f)
		c.Count("font:system-DejaVuSans(hebrew,arabic)")
	}
}

func run(c *hc.Ctx) {
	loadFonts(c)
	sel := func(name string) bool { return c.Only == "" || c.Only == name }
	if sel("g2i") {
		genG2I(c)
	}
	if sel("ro") {
		genRO(c)
	}
	if sel("si") {
		genSI(c)
	}
	if sel("ix") {
		genIX(c)
	}
	if sel("layout") {
		genLayout(c)
	}
	if sel("fit") {
		genFit(c)
	}
	if sel("textline") {
		genTextLine(c)
	}
}

// ---------------------------------------------------------------------------------------------
// independent rune classification (written from the Unicode names, not from the library's tables)

func isSpaceR(r rune) bool {
	return r == ' ' || r == '\t' || (0x2000 <= r && r <= 0x200A) || r == 0x205F || r == 0x3000
}
func isNewlineR(r rune) bool {
	return r == '\n' || r == '\r' || r == '\f' || r == '\v' || r == 0x85 || r == 0x2028 || r == 0x2029
}

func glyphClass(r rune) byte {
	switch {
	case isSpaceR(r):
		return 'S'
	case r == '\r':
		return 'R'
	case r == '\n':
		return 'N'
	case isNewlineR(r):
		return 'L'
	case r == 0xAD:
		return 'H'
	case r == 0x200B:
		return 'Z'
	}
	return 'C'
}

func textClass(r rune) int {
	switch r {
	case ')', ']', '\'', '"':
		return 1
	case '.', '!', '?':
		return 3
	case ':':
		return 4
	case ';':
		return 5
	case ',':
		return 6
	}
	if unicode.IsUpper(r) {
		return 2
	}
	return 0
}

func spaceless(s text.Script) bool {
	switch s {
	case text.Han, text.Hangul, text.Katakana, text.Khmer, text.Lao, text.PhagsPa, text.Brahmi, text.TaiTham, text.NewTaiLue,
		text.TaiLe, text.TaiViet, text.Thai, text.Tibetan, text.Myanmar:
		return true
	}
	return false
}

func b01(b bool) byte {
	if b {
		return '1'
	}
	return '0'
}

func hyphenWidth(g text.Glyph) float64 {
	hw := float64(g.SFNT.GlyphAdvance(g.SFNT.GlyphIndex('-')))
	hw *= g.Size / float64(g.SFNT.Head.UnitsPerEm)
	return hw
}

// g2iLine builds the protocol line for a glyph list (horizontal glyphs only).
func g2iLine(glyphs []text.Glyph, indent float64, align text.Align) string {
	var sb strings.Builder
	fmt.Fprintf(&sb, "G2I %d %s", int(align), hc.H(indent))
	for _, g := range glyphs {
		adv := float64(g.XAdvance) * g.Size / float64(g.SFNT.Head.UnitsPerEm)
		hw := 0.0
		if g.Text == 0xAD {
			hw = hyphenWidth(g)
		}
		fmt.Fprintf(&sb, " %c%c%c%d %s %s", glyphClass(g.Text), b01(g.Text == '-'), b01(spaceless(g.Script)), textClass(g.Text), hc.H(adv), hc.H(hw))
	}
	return sb.String()
}

func itemsString(items []text.Item) string {
	var sb strings.Builder
	fmt.Fprintf(&sb, "%d", len(items))
	for _, it := range items {
		t := byte('?')
		switch it.Type {
		case text.BoxType:
			t = 'B'
		case text.GlueType:
			t = 'G'
		case text.PenaltyType:
			t = 'P'
		}
		fmt.Fprintf(&sb, " %c:%d:%c:%s:%s:%s:%s", t, it.Size, b01(it.Flagged), hc.H(it.Width), hc.H(it.Stretch), hc.H(it.Shrink), hc.H(it.Penalty))
	}
	return sb.String()
}

var g2iAlphabet = []rune("abcdeXYZ.,;:!?)]'\"-\u00a0\u2060\u6f22\u5b57\u304b\u30bf\u0e44\u0e17")
var g2iSpaces = []rune("   \t\u2003\u3000\u2009\u205f")
var g2iNewlines = []rune("\n\n\r\r\f\v\u2028\u2029\u0085")

func scriptOf(r rune) text.Script {
	switch {
	case r == '漢' || r == '字':
		return text.Han
	case r == 'か':
		return text.Hiragana
	case r == 'タ':
		return text.Katakana
	case r == 'ไ' || r == 'ท':
		return text.Thai
	}
	return text.Latin
}

// checkItems judges the property predicate of GlyphsToItems on the real output: every glyph is
// accounted for by exactly one item Size, the paragraph starts with the indent box and ends with
// glue + forced break.
func checkItems(c *hc.Ctx, glyphs []text.Glyph, items []text.Item, align text.Align, replay any) {
	c.Evals++
	if len(glyphs) == 0 {
		if len(items) != 0 {
			c.Fail("g2i-empty", "items for no glyphs", replay)
		}
		return
	}
	sum := 0
	for _, it := range items {
		if it.Size < 0 {
			c.Fail("g2i-negative-size", "negative Size", replay)
			return
		}
		sum += it.Size
	}
	if sum != len(glyphs) {
		hasOpt := false
		for _, g := range glyphs {
			if g.Text == 0xAD || g.Text == 0x200B {
				hasOpt = true
			}
		}
		kind := fmt.Sprintf("g2i-size-sum:align=%d", int(align))
		if hasOpt {
			kind += ":optional-hyphen"
		}
		c.Fail(kind, fmt.Sprintf("sum of item sizes %d != %d glyphs", sum, len(glyphs)), replay)
	}
	n := len(items)
	if n < 3 || items[0].Type != text.BoxType || items[n-2].Type != text.GlueType || items[n-1].Type != text.PenaltyType || items[n-1].Penalty > -text.Infinity {
		c.Fail("g2i-frame", "items do not start with the indent box and end with glue + forced break", replay)
	}
}

func genG2I(c *hc.Ctx) {
	n := c.N
	for it := 0; it < n; it++ {
		f := fonts[c.Intn(len(fonts))]
		size := []float64{10, 12, 3.5, 20.25}[c.Intn(4)] * 0.352777
		m := 1 + c.Intn(22)
		if c.Chance(0.1) {
			m = 1 + c.Intn(3)
		}
		rs := make([]rune, 0, m+4)
		pSpace, pNl, pOpt := 0.18, 0.05, 0.08
		switch c.Intn(5) {
		case 0:
			pSpace = 0.4
		case 1:
			pNl = 0.2
		case 2:
			pOpt = 0.25
		}
		if c.Chance(0.3) {
			for k := c.Intn(3); k >= 0; k-- {
				rs = append(rs, g2iSpaces[c.Intn(len(g2iSpaces))])
			}
		}
		for len(rs) < m {
			u := c.Float()
			switch {
			case u < pSpace:
				rs = append(rs, g2iSpaces[c.Intn(len(g2iSpaces))])
			case u < pSpace+pNl:
				r := g2iNewlines[c.Intn(len(g2iNewlines))]
				rs = append(rs, r)
				if r == '\r' && c.Chance(0.7) {
					rs = append(rs, '\n')
				}
			case u < pSpace+pNl+pOpt:
				if c.Bool() {
					rs = append(rs, 0xAD)
				} else {
					rs = append(rs, 0x200B)
				}
			default:
				rs = append(rs, g2iAlphabet[c.Intn(len(g2iAlphabet))])
			}
		}
		if c.Chance(0.3) {
			for k := c.Intn(3); k >= 0; k-- {
				rs = append(rs, g2iSpaces[c.Intn(len(g2iSpaces))])
			}
		}
		if c.Chance(0.04) {
			rs = rs[:0]
		}
		glyphs := make([]text.Glyph, len(rs))
		for i, r := range rs {
			adv := int32(c.Intn(2400))
			if c.Chance(0.08) {
				adv = 0
			}
			glyphs[i] = text.Glyph{SFNT: f.SFNT, Size: size, Script: scriptOf(r), ID: f.GlyphIndex(r), Cluster: uint32(i), XAdvance: adv, Text: r}
		}
		align := text.Align(c.Intn(4))
		indent := 0.0
		if c.Chance(0.4) {
			indent = float64(c.Intn(80)) / 4
		}
		line := g2iLine(glyphs, indent, align)
		var items []text.Item
		if msg := hc.Try(func() { items = text.GlyphsToItems(glyphs, indent, align) }); msg != "" {
			c.Fail("g2i-panic", "GlyphsToItems panicked: "+msg, map[string]any{"runes": fmt.Sprintf("%q", string(rs)), "align": int(align)})
			continue
		}
		c.Case(line, "=", itemsString(items))
		c.Count(fmt.Sprintf("g2i:align=%d", int(align)))
		for _, r := range rs {
			c.Count("g2i:glyph-class=" + string(glyphClass(r)))
		}
		if strings.Contains(string(rs), "\r\n") {
			c.Count("g2i:has-CRLF")
		}
		// branches of GlyphsToItems reached
		for i, r := range rs {
			if i == 0 {
				if isSpaceR(r) {
					c.Count("g2i-branch:leading-pad")
				}
				continue
			}
			pr := rs[i-1]
			switch {
			case isSpaceR(r) && isSpaceR(pr):
				c.Count("g2i-branch:glue-merged(consecutive-spaces)")
			case isSpaceR(r) && align == text.Justified && textClass(pr) >= 3:
				c.Count("g2i-branch:space-factor-punctuation")
			case isSpaceR(r) && align == text.Justified && textClass(pr) == 1:
				c.Count("g2i-branch:space-after-closer")
			case glyphClass(r) == 'C' && glyphClass(pr) == 'C' && pr != '-' && (spaceless(scriptOf(r)) || spaceless(scriptOf(pr))):
				c.Count("g2i-branch:spaceless-penalty-between-boxes")
			case glyphClass(r) == 'C' && glyphClass(pr) == 'C' && pr != '-':
				c.Count("g2i-branch:box-merged")
			case glyphClass(r) == 'C' && pr == '-':
				c.Count("g2i-branch:box-after-hyphen-penalty")
			case (r == 0xAD || r == 0x200B) && align == text.Centered:
				c.Count("g2i-branch:centered-optional-break")
			}
		}
		if n := len(rs); n > 0 && isSpaceR(rs[n-1]) {
			c.Count("g2i-branch:trailing-pad")
		}
		c.Distinct("g2i" + string(rs) + fmt.Sprint(align))
		checkItems(c, glyphs, items, align, map[string]any{"runes": fmt.Sprintf("%q", string(rs)), "align": int(align), "indent": indent})
		if it < 2 {
			c.Sample(line + " -> " + itemsString(items))
		}
	}
}

// ---------------------------------------------------------------------------------------------
// reorderSpans

// visualOrder is rule L2 of the Unicode bidirectional algorithm on span levels: from the highest
// level down to the lowest odd level reverse every maximal run of spans at that level or higher.
func visualOrder(levels []int) []int {
	n := len(levels)
	ord := make([]int, n)
	hi, lowOdd := 0, 1<<30
	for i, l := range levels {
		ord[i] = i
		if l > hi {
			hi = l
		}
		if l%2 == 1 && l < lowOdd {
			lowOdd = l
		}
	}
	for lv := hi; lv >= lowOdd; lv-- {
		for i := 0; i < n; {
			if levels[ord[i]] >= lv {
				j := i
				for j < n && levels[ord[j]] >= lv {
					j++
				}
				for a, b := i, j-1; a < b; a, b = a+1, b-1 {
					ord[a], ord[b] = ord[b], ord[a]
				}
				i = j
			} else {
				i++
			}
		}
	}
	return ord
}

// judgeReorder checks that the spans tile [x0, x0+sum w) and appear in the visual order of rule L2.
// Returns "", "tiling" or "order".
func judgeReorder(levels []int, x0 float64, ws, xs []float64) string {
	n := len(levels)
	idx := make([]int, n)
	total := 0.0
	for i := range idx {
		idx[i] = i
		total += ws[i]
	}
	tol := 1e-9 * (1 + math.Abs(x0) + total)
	sort.SliceStable(idx, func(a, b int) bool { return xs[idx[a]] < xs[idx[b]] })
	x := x0
	for _, i := range idx {
		if math.Abs(xs[i]-x) > tol {
			return "tiling"
		}
		x += ws[i]
	}
	want := visualOrder(levels)
	x = x0
	for _, i := range want {
		if math.Abs(xs[i]-x) > tol {
			return "order"
		}
		x += ws[i]
	}
	return ""
}

func levelShape(levels []int) string {
	hi := 0
	for _, l := range levels {
		if l > hi {
			hi = l
		}
	}
	if hi <= 1 {
		return "levels<=1"
	}
	// does some run of level >= 2 contain more than one span, or does the line start above level 1?
	multi := false
	for i := 0; i+1 < len(levels); i++ {
		if levels[i] >= 2 && levels[i+1] >= 2 {
			multi = true
		}
	}
	s := "nested"
	if levels[0] >= 2 {
		s += "+starts-above-1"
	}
	if multi {
		s += "+multi-span-inner-run"
	}
	return s
}

func genRO(c *hc.Ctx) {
	for it := 0; it < c.N; it++ {
		n := 1 + c.Intn(8)
		levels := make([]int, n)
		mode := c.Intn(4)
		l := c.Intn(2)
		for i := range levels {
			switch mode {
			case 0: // plain mixed direction
				if c.Chance(0.35) {
					l = 1 - l
				}
			case 1: // bidi-like walk: steps of one level
				if c.Chance(0.5) {
					if c.Bool() && l < 4 {
						l++
					} else if l > 0 {
						l--
					}
				}
			case 2:
				l = c.Intn(3)
			default:
				l = c.Intn(5)
			}
			levels[i] = l
		}
		x0 := 0.0
		if c.Bool() {
			x0 = c.Range(-20, 60)
		}
		xs, ws := make([]float64, n), make([]float64, n)
		x := x0
		for i := range ws {
			if c.Bool() {
				ws[i] = float64(1+c.Intn(40)) / 4
			} else {
				ws[i] = c.Range(0.3, 25)
			}
			xs[i] = x
			x += ws[i]
		}
		var sb strings.Builder
		sb.WriteString("RO")
		for i := range levels {
			fmt.Fprintf(&sb, " %d %s %s", levels[i], hc.H(xs[i]), hc.H(ws[i]))
		}
		var out []float64
		if msg := hc.Try(func() { out = canvas.VerifC16ReorderSpans(levels, xs, ws) }); msg != "" {
			c.Fail("reorder-panic", msg, sb.String())
			continue
		}
		c.Case(sb.String(), "=", "x "+hc.Hs(out...))
		shape := levelShape(levels)
		c.Count("ro:" + shape)
		c.Distinct(sb.String())
		c.Evals++
		if v := judgeReorder(levels, x0, ws, out); v != "" {
			c.Fail("reorder-"+v+":"+shape, fmt.Sprintf("levels %v: spans after reorderSpans fail %s (x0=%g widths=%v -> x=%v, L2 order %v)", levels, v, x0, ws, out, visualOrder(levels)),
				map[string]any{"levels": levels, "x0": x0, "w": ws, "x": out})
		}
		if it < 2 {
			c.Sample(sb.String() + " -> " + hc.Hs(out...))
		}
	}
}

// ---------------------------------------------------------------------------------------------
// ScriptItemizer

var siAlphabet = []rune("abcXYZ   ..,-12349\u03b1\u03b2\u03b3\u0436\u0437\u0438\u05d0\u05d1\u05d2\u05d3\u05d4\u0627\u0628\u062a\u062b\u062c\u0661\u0662\u6f22\u5b57\u304b\u306a\u30bf\u0e44\u0e17\u0301\u0308\u200c\u200d\ufffd\u202a\u202b\u202c\u2067\u2069\n\u00ad\u200b\u00a0")

func scriptCode(s text.Script) uint32 {
	switch s {
	case text.ScriptInherited:
		return 1
	case text.ScriptUnknown:
		return 2
	case text.ScriptCommon:
		return 3
	}
	return uint32(s)
}

func genSI(c *hc.Ctx) {
	for it := 0; it < c.N; it++ {
		n := c.Intn(14)
		if c.Chance(0.1) {
			n = 0
		}
		rs := make([]rune, n)
		sticky := c.Bool()
		for i := range rs {
			if sticky && i > 0 && c.Chance(0.5) && unicode.IsLetter(rs[i-1]) {
				rs[i] = rs[i-1]
			} else {
				rs[i] = siAlphabet[c.Intn(len(siAlphabet))]
			}
		}
		var levels []int
		if c.Chance(0.6) {
			levels = text.EmbeddingLevels(rs)
			c.Count("si:levels=fribidi")
		} else {
			levels = make([]int, n)
			l := c.Intn(2)
			for i := range levels {
				if c.Chance(0.3) {
					l = c.Intn(4)
				}
				levels[i] = l
			}
			c.Count("si:levels=synthetic")
		}
		var sb strings.Builder
		sb.WriteString("SI")
		for i, r := range rs {
			fmt.Fprintf(&sb, " %d %d %c %c", scriptCode(text.LookupScript(r)), levels[i], b01(r == 0x200C || r == 0x200D), b01(r == unicode.ReplacementChar))
		}
		var items []text.ScriptItem
		if msg := hc.Try(func() { items = text.ScriptItemizer(rs, levels) }); msg != "" {
			c.Fail("itemizer-panic", msg, map[string]any{"runes": fmt.Sprintf("%q", string(rs)), "levels": levels})
			continue
		}
		var ob strings.Builder
		ob.WriteString("it")
		cat := ""
		empty := false
		for _, item := range items {
			fmt.Fprintf(&ob, " %d:%d:%d", scriptCode(item.Script), item.Level, len([]rune(item.Text)))
			cat += item.Text
			if item.Text == "" {
				empty = true
			}
		}
		c.Case(sb.String(), "=", ob.String())
		c.Count(fmt.Sprintf("si:items=%d", min(len(items), 6)))
		c.Distinct(sb.String())
		c.Evals++
		if cat != string(rs) {
			c.Fail("itemizer-partition", "item texts do not concatenate to the input", map[string]any{"runes": fmt.Sprintf("%q", string(rs)), "levels": levels})
		}
		if empty {
			c.Fail("itemizer-empty-item", "empty script item", map[string]any{"runes": fmt.Sprintf("%q", string(rs)), "levels": levels})
		}
		if it < 2 {
			c.Sample(fmt.Sprintf("%q ", string(rs)) + sb.String() + " -> " + ob.String())
		}
	}
}

// ---------------------------------------------------------------------------------------------
// indexer.index

func genIX(c *hc.Ctx) {
	for it := 0; it < c.N/4+1; it++ {
		n := c.Intn(6)
		ix := make([]int, n)
		v := 0
		for i := range ix {
			ix[i] = v
			v += c.Intn(4) // repeated starts happen for empty runs
		}
		loc := c.Intn(v+3) - 1
		var sb strings.Builder
		fmt.Fprintf(&sb, "IX %d", loc)
		for _, s := range ix {
			fmt.Fprintf(&sb, " %d", s)
		}
		got := canvas.VerifC16Index(ix, loc)
		c.Case(sb.String(), "=", fmt.Sprint(got))
		c.Count("ix")
		c.Evals++
		// specification: the last i with ix[i] <= loc among the leading block of starts <= loc (-1 if none)
		want := n - 1
		for i, s := range ix {
			if loc < s {
				want = i - 1
				break
			}
		}
		if got != want {
			c.Fail("indexer", "index mismatch", sb.String())
		}
	}
}
