package main

// Second wave: correspondence lines for the hand-written Lean model (CanvasModel/C07.lean) of
// Matrix.Rotate/RotateAbout, solveQuadraticFormula, Matrix.Eigen, Point.Norm/Angle, angleNorm, the
// ArcTo case of Path.Transform and the Path.Transform loop, and verdict lines ("!"): the Go side only
// generates inputs and records what the real code returned, the Lean specification decides.

import (
	"fmt"
	"math"
	"regexp"
	"strconv"
	"strings"

	"github.com/tdewolff/canvas"
	"verifharness/hc"
)

func marr(m canvas.Matrix) []float64 {
	return []float64{m[0][0], m[0][1], m[0][2], m[1][0], m[1][1], m[1][2]}
}
func mhex(m canvas.Matrix) string { return hc.Hs(marr(m)...) }

// ---- matrix classes ---------------------------------------------------------------------------

var matClasses = []string{"translation", "rotation", "reflection", "similarity", "similarity-reflected", "near-similarity",
	"scale", "shear", "near-singular", "composite", "big-small", "axis-swap"}

// GenMatrixClass returns an invertible matrix of the named class (linear part; a translation is
// added for half of them).
func GenMatrixClass(c *hc.Ctx, class string) canvas.Matrix {
	m := canvas.Identity
	if c.Bool() {
		m = m.Translate(c.GenCoord(), c.GenCoord())
	}
	ang := func() float64 {
		if c.Bool() {
			return float64(c.Intn(24)) * 15
		}
		return c.Range(0, 360)
	}
	switch class {
	case "translation":
		m = canvas.Identity.Translate(c.GenCoord(), c.GenCoord())
	case "rotation":
		m = m.Rotate(ang())
	case "reflection":
		m = m.Rotate(ang()).ReflectX().Rotate(ang())
	case "similarity":
		s := c.Range(0.2, 4)
		m = m.Rotate(ang()).Scale(s, s)
	case "similarity-reflected":
		s := c.Range(0.2, 4)
		m = m.Rotate(ang()).Scale(s, -s).Rotate(ang())
	case "near-similarity":
		// image of a circle is an ellipse of relative eccentricity 1e-5 … 1e-13
		s := c.Range(0.3, 3)
		ecc := math.Pow(10, -c.Range(5, 13))
		m = m.Rotate(c.Range(0, 360)).Scale(s, s*(1+ecc)).Rotate(c.Range(0, 360))
		if c.Chance(0.3) {
			m = m.ReflectY()
		}
	case "scale":
		sx, sy := c.Range(0.1, 5), c.Range(0.1, 5)
		if c.Chance(0.3) {
			sx = -sx
		}
		if c.Chance(0.3) {
			sy = -sy
		}
		m = m.Scale(sx, sy)
	case "shear":
		m = m.Shear(c.Range(-2, 2), c.Range(-0.4, 0.4))
	case "near-singular":
		// determinant between 1e-2 and 1e-6 of the squared norm
		k := math.Pow(10, -c.Range(2, 6))
		m = m.Rotate(c.Range(0, 360)).Scale(c.Range(0.5, 2), k).Rotate(c.Range(0, 360))
	case "big-small":
		s := math.Pow(10, c.Range(-4, 4))
		m = m.Rotate(ang()).Scale(s*c.Range(0.5, 2), s*c.Range(0.5, 2)).Shear(c.Range(-1, 1), 0)
	case "axis-swap":
		m = m.Mul(canvas.Matrix{{0, c.Range(0.5, 2), 0}, {[]float64{1, -1}[c.Intn(2)] * c.Range(0.5, 2), 0, 0}})
	default:
		m = m.Mul(GenMatrix(c))
	}
	return m
}

func GenMatrixAny(c *hc.Ctx) (canvas.Matrix, string) {
	cl := matClasses[c.Intn(len(matClasses))]
	return GenMatrixClass(c, cl), cl
}

// ---- arcs -------------------------------------------------------------------------------------

type arcIn struct {
	rx, ry, phi  float64
	large, sweep bool
	sx, sy       float64
	ex, ey       float64
	class        string
}

var arcClasses = []string{"circle", "near-circle", "axis-aligned", "rotated", "eccentric", "tiny", "large", "quarter-turn"}

func GenArc(c *hc.Ctx) arcIn {
	a := arcIn{large: c.Bool(), sweep: c.Bool(), sx: c.GenCoord(), sy: c.GenCoord(), ex: c.GenCoord(), ey: c.GenCoord()}
	a.class = arcClasses[c.Intn(len(arcClasses))]
	r := math.Abs(c.GenCoord()) + 0.5
	switch a.class {
	case "circle":
		a.rx, a.ry, a.phi = r, r, []float64{0, c.Range(0, math.Pi)}[c.Intn(2)]
	case "near-circle":
		a.rx, a.ry, a.phi = r, r*(1+math.Pow(10, -c.Range(4, 13))), c.Range(0, math.Pi)
	case "axis-aligned":
		a.rx, a.ry, a.phi = r, math.Abs(c.GenCoord())+0.5, []float64{0, math.Pi / 2}[c.Intn(2)]
	case "rotated":
		a.rx, a.ry, a.phi = r, math.Abs(c.GenCoord())+0.5, c.Range(0, math.Pi)
	case "eccentric":
		a.rx, a.ry, a.phi = r*c.Range(5, 50), r, c.Range(0, math.Pi)
		if c.Bool() {
			a.rx, a.ry = a.ry, a.rx
		}
	case "tiny":
		a.rx, a.ry, a.phi = r*1e-3, (math.Abs(c.GenCoord())+0.5)*1e-3, c.Range(0, math.Pi)
	case "large":
		f := []float64{10, 40, 150, 1000}[c.Intn(4)]
		a.rx, a.ry, a.phi = r*f, r*f*c.Range(0.85, 1.15), float64(c.Intn(24))*15*math.Pi/180
	case "quarter-turn":
		a.rx, a.ry, a.phi = r, math.Abs(c.GenCoord())+0.5, float64(c.Intn(8))*math.Pi/4
	}
	return a
}

func flagsOf(large, sweep bool) float64 {
	f := 0.0
	if large {
		f += 1
	}
	if sweep {
		f += 2
	}
	return f
}

// libSincos: the sine and cosine Path.Transform uses for an arc's rotation phi:
// m.Rotate(phi * 180.0 / math.Pi) -> math.Sincos(rot * math.Pi / 180.0)
func libSincos(phi float64) (float64, float64) {
	rot := phi * 180.0 / math.Pi
	return math.Sincos(rot * math.Pi / 180.0)
}

// ellipseToks mirrors Drv/C07.lean ellipseToks: radii and w·cos 2φ, w·sin 2φ
func ellipseToks(rx, ry, phi float64) string {
	w := (rx - ry) / (rx + ry)
	return hc.Hs(rx, ry, w*math.Cos(2*phi), w*math.Sin(2*phi))
}

// arcBranch replays the few lines of Path.Transform's ArcTo case with the library's own functions
// and reports which branch of Matrix.Eigen was taken and whether the radii were swapped. Only used
// as a branch counter (and compared with the branch the Lean model took).
func arcBranch(m canvas.Matrix, rx, ry, phi float64) string {
	T := m.Rotate(phi * 180.0 / math.Pi)
	invT := T.Inv()
	s := rx * ry * math.Abs(m.Det())
	Q := canvas.Identity.Scale(s/rx/rx, s/ry/ry)
	Q = invT.T().Mul(Q).Mul(invT)
	l1, l2, _, _ := Q.Eigen()
	br := 0
	switch {
	case canvas.Equal(Q[1][0], 0) && canvas.Equal(Q[0][1], 0):
		br = 0
	case math.IsNaN(l1):
		return "nan"
	case !canvas.Equal(Q[1][0], 0):
		br = 2
	case !canvas.Equal(Q[0][1], 0):
		br = 3
	default:
		br = 4
	}
	sw := "n"
	if math.Sqrt(s/l1) < math.Sqrt(s/l2) {
		sw = "s"
	}
	return strconv.Itoa(br) + sw
}

// negDiscriminant: branch predicate of the repaired NaN-radii defect (C07-arc-transform-nan-radii). The characteristic polynomial of the
// (symmetric) ellipse equation has discriminant (q00-q11)^2 + 4 q01 q10 >= 0, but
// solveQuadraticFormula evaluates it as b*b - 4*a*c, which rounding makes negative when the two
// eigenvalues nearly coincide although the off-diagonal entries are above Epsilon.
func negDiscriminant(m canvas.Matrix, rx, ry, phi float64) bool {
	T := m.Rotate(phi * 180.0 / math.Pi)
	invT := T.Inv()
	s := rx * ry * math.Abs(m.Det())
	Q := canvas.Identity.Scale(s/rx/rx, s/ry/ry)
	Q = invT.T().Mul(Q).Mul(invT)
	if canvas.Equal(Q[1][0], 0) && canvas.Equal(Q[0][1], 0) {
		return false
	}
	b := -Q[0][0] - Q[1][1]
	cc := Q.Det()
	exact := (Q[0][0]-Q[1][1])*(Q[0][0]-Q[1][1]) + 4*Q[0][1]*Q[1][0]
	return b*b-4*cc < 0 && exact >= 0
}

// pinned inputs (minimised past failures), run first on every seed
var pinnedArcs = []struct {
	a arcIn
	m canvas.Matrix
}{
	// C07-arc-transform-nan-radii: discriminant of the characteristic polynomial rounded below zero
	{arcIn{rx: 2.3167455070777416, ry: 2.3167455070777416, sweep: true, sx: 2.3167455070777416, ey: 2.3167455070777416, class: "pinned"},
		canvas.Matrix{{-0.4939260809129755, -3.1260559784403315, 0}, {3.126055983600108, -0.4939260904351872, 0}}},
	// C07-arc-transform-absolute-epsilon (fixed by 4489f56): nearly circular image of a 20 mm arc
	{arcIn{rx: 23.496979660167117, ry: 18.82137144657481, phi: 90.90805315784665 * math.Pi / 180, large: true, sweep: true, sx: 16.883, sy: -4, ex: -19.926, ey: 6.176, class: "pinned"},
		canvas.Identity.Scale(-2.6214495603019974, 2.120989351191129)},
	// reflection of a rotated eccentric arc (sweep flips, axis angle mirrors)
	{arcIn{rx: 10, ry: 2, phi: math.Pi / 6, large: false, sweep: true, sx: 1, sy: 1, ex: 4, ey: 3, class: "pinned"},
		canvas.Identity.ReflectX().Rotate(20)},
}

func c07arcs(c *hc.Ctx) {
	n := c.N * 2
	for it := 0; it < n; it++ {
		a := GenArc(c)
		m, mcl := GenMatrixAny(c)
		if it < len(pinnedArcs) {
			a, m, mcl = pinnedArcs[it].a, pinnedArcs[it].m, "pinned"
		}
		if mcl == "translation" && c.Bool() {
			mcl = "composite"
			m = GenMatrix(c)
		}
		if mcl != "pinned" && c.Chance(0.12) {
			// image that is almost, but not exactly, a circle: both eigenvalues of the ellipse equation
			// nearly coincide while its off-diagonal entries are above Epsilon
			r := math.Abs(c.GenCoord()) + 0.5
			a.rx, a.ry, a.class = r, r, "circle"
			if c.Bool() {
				a.ry, a.class = r*(1+math.Pow(10, -c.Range(7, 13))), "near-circle"
			}
			m, mcl = GenMatrixClass(c, "near-similarity"), "near-similarity"
			c.Count("arc:near-circular-image")
		}
		arcCase(c, a, m, mcl, it == 0)
	}
	if c.Tier != "quick" {
		c07sweep(c)
	}
}

// c07sweep: deterministic boundary sweep (thorough and search tiers): every multiple of 15 degrees as arc
// rotation, under rotations, mirror lines and axis scalings at every multiple of 15 degrees, for a
// circle and a 2:1 ellipse.
func c07sweep(c *hc.Ctx) {
	for k := 0; k < 24; k++ {
		phi := float64(k) * math.Pi / 12
		for _, rr := range [][2]float64{{3, 3}, {4, 2}} {
			a := arcIn{rx: rr[0], ry: rr[1], phi: phi, large: k%2 == 0, sweep: k%3 == 0, sx: 1, sy: 2, ex: 3, ey: -1, class: "sweep"}
			for j := 0; j < 24; j++ {
				deg := float64(j) * 15
				arcCase(c, a, canvas.Identity.Rotate(deg), "sweep-rotation", false)
				arcCase(c, a, canvas.Identity.Rotate(deg).ReflectX().Rotate(-deg), "sweep-mirror", false)
				arcCase(c, a, canvas.Identity.Rotate(deg).Scale(2, 0.5), "sweep-rot-scale", false)
			}
			for _, sc := range [][2]float64{{1, -1}, {-1, 1}, {-1, -1}, {2, 2}, {-3, 3}, {0.5, 2}} {
				arcCase(c, a, canvas.Identity.Scale(sc[0], sc[1]), "sweep-scale", false)
			}
		}
	}
}

func arcCase(c *hc.Ctx, a arcIn, m canvas.Matrix, mcl string, sample bool) {
	for once := true; once; once = false {
		det := m.Det()
		if math.Abs(det) <= 1e-9 || math.IsNaN(det) {
			c.Count("arc:skip-singular")
			break
		}
		d := []float64{canvas.MoveToCmd, a.sx, a.sy, canvas.MoveToCmd,
			canvas.ArcToCmd, a.rx, a.ry, a.phi, flagsOf(a.large, a.sweep), a.ex, a.ey, canvas.ArcToCmd}
		var q *canvas.Path
		if msg := hc.Try(func() { q = canvas.VerifC07PathFromData(d).Transform(m) }); msg != "" {
			c.Fail("panic", "Transform panicked: "+msg, map[string]any{"data": d, "m": marr(m)})
			break
		}
		o := q.Data()
		if len(o) != len(d) || o[4] != canvas.ArcToCmd || o[11] != canvas.ArcToCmd || o[0] != canvas.MoveToCmd {
			c.Fail("structure", "Transform changed the command structure", map[string]any{"data": d, "m": marr(m), "out": o})
			break
		}
		rx2, ry2, phi2, fl2, ex2, ey2 := o[5], o[6], o[7], o[8], o[9], o[10]
		large2, sweep2 := fl2 == 1 || fl2 == 3, fl2 == 2 || fl2 == 3
		sin, cos := libSincos(a.phi)
		br := arcBranch(m, a.rx, a.ry, a.phi)
		c.Count("arc:class:" + a.class)
		c.Count("arc:matrix:" + mcl)
		c.Count("arc:eigen-branch:" + br)
		if det < 0 {
			c.Count("arc:reflected")
		}
		c.Evals++
		c.Distinct(fmt.Sprint(d, m))
		// (a) correspondence with the Lean model of the ArcTo case
		line := "ARC " + mhex(m) + " " + hc.Hs(a.rx, a.ry, a.phi, sin, cos) + " " + hc.B(a.large) + " " + hc.B(a.sweep) + " " + hc.Hs(a.ex, a.ey)
		c.Case(line, "~", ellipseToks(rx2, ry2, phi2)+" "+hc.B(large2)+" "+hc.B(sweep2)+" "+hc.Hs(ex2, ey2)+" "+br)
		// (b) verdict of the exact specification on what the real code returned
		suffix := ""
		if negDiscriminant(m, a.rx, a.ry, a.phi) {
			// discriminant rounded below zero: since 2c3bd2a Eigen answers with the double eigenvalue
			// (regression class: NaN radii here are a VIOLATION arc-image:nan-radii)
			c.Count("arc:eigen-double-eigenvalue-rescued")
		}
		v := "ARCV " + mhex(m) + " " + hc.Hs(a.rx, a.ry, math.Cos(a.phi), math.Sin(a.phi)) + " " + hc.B(a.large) + " " + hc.B(a.sweep) + " " + hc.Hs(a.ex, a.ey) +
			" " + hc.Hs(rx2, ry2, math.Cos(phi2), math.Sin(phi2)) + " " + hc.B(large2) + " " + hc.B(sweep2) + " " + hc.Hs(ex2, ey2) + " " + hc.H(2e-5)
		c.Case(v, "!", "arc-image"+suffix)
		if sample {
			c.Sample(line)
		}
	}
}

// ---- whole paths through the Path.Transform loop --------------------------------------------------

func c07paths(c *hc.Ctx) {
	for it := 0; it < c.N; it++ {
		kinds := []string{"L", "LQC", "LQCA", "A", "LAZ", "QC"}[c.Intn(6)]
		nseg := 1 + c.Intn(8)
		if c.Tier != "quick" && c.Chance(0.1) {
			nseg = 20 + c.Intn(60)
		}
		var d []float64
		var toks []string
		hasArc := false
		var prev arcIn
		havePrev := false
		add := func(cmd float64, tag string, args ...float64) {
			d = append(d, cmd)
			d = append(d, args...)
			d = append(d, cmd)
			toks = append(toks, tag, hc.Hs(args...))
		}
		add(canvas.MoveToCmd, "M", c.GenCoord(), c.GenCoord())
		for i := 0; i < nseg; i++ {
			switch kinds[c.Intn(len(kinds))] {
			case 'L':
				add(canvas.LineToCmd, "L", c.GenCoord(), c.GenCoord())
			case 'Q':
				add(canvas.QuadToCmd, "Q", c.GenCoord(), c.GenCoord(), c.GenCoord(), c.GenCoord())
			case 'C':
				add(canvas.CubeToCmd, "C", c.GenCoord(), c.GenCoord(), c.GenCoord(), c.GenCoord(), c.GenCoord(), c.GenCoord())
			case 'Z':
				add(canvas.CloseCmd, "Z", c.GenCoord(), c.GenCoord())
				add(canvas.MoveToCmd, "M", c.GenCoord(), c.GenCoord())
			case 'A':
				a := GenArc(c)
				if havePrev && c.Chance(0.4) {
					// runs of arcs sharing some but not all parameters: any per-command state carried from
					// one arc to the next inside Transform shows here
					switch c.Intn(3) {
					case 0:
						a.rx, a.ry = prev.rx, prev.ry
					case 1:
						a.phi = prev.phi
					case 2:
						a.rx, a.ry, a.phi = prev.rx, prev.ry, prev.phi
					}
					c.Count("path:arc-run")
				}
				prev, havePrev = a, true
				sin, cos := libSincos(a.phi)
				d = append(d, canvas.ArcToCmd, a.rx, a.ry, a.phi, flagsOf(a.large, a.sweep), a.ex, a.ey, canvas.ArcToCmd)
				toks = append(toks, "A", hc.Hs(a.rx, a.ry, a.phi, sin, cos), hc.B(a.large), hc.B(a.sweep), hc.Hs(a.ex, a.ey))
				hasArc = true
			}
		}
		m, mcl := GenMatrixAny(c)
		if math.Abs(m.Det()) <= 1e-9 {
			c.Count("path:skip-singular")
			continue
		}
		var q *canvas.Path
		if msg := hc.Try(func() { q = canvas.VerifC07PathFromData(d).Transform(m) }); msg != "" {
			c.Fail("panic", "Transform panicked: "+msg, map[string]any{"data": d, "m": marr(m)})
			continue
		}
		o := q.Data()
		out, ok := outToks(o, len(d))
		if !ok {
			c.Fail("structure", "Transform changed the command structure", map[string]any{"data": d, "m": marr(m), "out": o})
			continue
		}
		mode := "="
		if hasArc {
			mode = "~"
			c.Count("path:with-arcs")
		} else {
			c.Count("path:exact")
		}
		c.Count("path:matrix:" + mcl)
		c.Count(fmt.Sprintf("path:len:%d", (nseg+4)/5*5))
		c.Evals++
		c.Case("XF "+mhex(m)+" "+strings.Join(toks, " "), mode, strings.Join(out, " "))

		// Path.Translate / Path.Scale: Transform of Identity.Translate / Identity.Scale applied to a COPY
		// (43a429d): same model line with the L1 matrix, and the receiver must stay as it was
		if it%3 == 0 {
			x, y := c.GenCoord(), c.GenCoord()
			name := "Translate"
			mm := canvas.Identity.Translate(x, y)
			if c.Bool() {
				name = "Scale"
				if x == 0 || y == 0 {
					x, y = 2, -3
				}
				mm = canvas.Identity.Scale(x, y)
			}
			p0 := canvas.VerifC07PathFromData(d)
			var r *canvas.Path
			if msg := hc.Try(func() {
				if name == "Translate" {
					r = p0.Translate(x, y)
				} else {
					r = p0.Scale(x, y)
				}
			}); msg != "" {
				c.Fail("panic", name+" panicked: "+msg, map[string]any{"data": d, "x": x, "y": y})
				continue
			}
			c.Evals++
			c.Count("path:" + name)
			same := len(p0.Data()) == len(d)
			for i := 0; same && i < len(d); i++ {
				same = p0.Data()[i] == d[i] || (d[i] != d[i] && p0.Data()[i] != p0.Data()[i])
			}
			if !same || r == p0 {
				c.Fail("in-place:"+name, "Path."+name+" modified its receiver (documented: returns a new path)", map[string]any{"data": d, "x": x, "y": y})
			}
			out2, ok2 := outToks(r.Data(), len(d))
			if !ok2 {
				c.Fail("structure", name+" changed the command structure", map[string]any{"data": d, "x": x, "y": y, "out": r.Data()})
				continue
			}
			c.Case("XF "+mhex(mm)+" "+strings.Join(toks, " "), mode, strings.Join(out2, " "))
		}
	}
}

// sqBranch names the branch of solveQuadraticFormula an input takes (branch counter only)
func sqBranch(a, b, c float64) string {
	eq := canvas.Equal
	switch {
	case eq(a, 0) && eq(b, 0) && eq(c, 0):
		return "all-zero"
	case eq(a, 0) && eq(b, 0):
		return "constant"
	case eq(a, 0):
		return "linear"
	case eq(c, 0) && eq(b, 0):
		return "only-quadratic"
	case eq(c, 0):
		return "no-constant"
	}
	d := b*b - 4*a*c
	switch {
	case d < 0:
		return "disc-negative"
	case eq(d, 0):
		return "disc-zero"
	case b < 0:
		return "two-roots-b-negative"
	}
	return "two-roots-b-nonnegative"
}

// outToks renders a transformed command array as protocol tokens (arcs direction-free, see ellipseToks)
func outToks(o []float64, want int) (out []string, ok bool) {
	ok = len(o) == want
	for i := 0; ok && i < len(o); {
		switch o[i] {
		case canvas.MoveToCmd:
			out = append(out, "M", hc.Hs(o[i+1:i+3]...))
			i += 4
		case canvas.LineToCmd:
			out = append(out, "L", hc.Hs(o[i+1:i+3]...))
			i += 4
		case canvas.CloseCmd:
			out = append(out, "Z", hc.Hs(o[i+1:i+3]...))
			i += 4
		case canvas.QuadToCmd:
			out = append(out, "Q", hc.Hs(o[i+1:i+5]...))
			i += 6
		case canvas.CubeToCmd:
			out = append(out, "C", hc.Hs(o[i+1:i+7]...))
			i += 8
		case canvas.ArcToCmd:
			f := o[i+4]
			out = append(out, "A", ellipseToks(o[i+1], o[i+2], o[i+3]), hc.B(f == 1 || f == 3), hc.B(f == 2 || f == 3), hc.Hs(o[i+5:i+7]...))
			i += 8
		default:
			ok = false
		}
	}
	return
}

// ---- Rotate, RotateAbout, solveQuadraticFormula, Eigen, Norm, Angle, angleNorm ----------------------

func c07funcs(c *hc.Ctx) {
	for it := 0; it < c.N; it++ {
		m, _ := GenMatrixAny(c)
		if c.Chance(0.3) {
			m = canvas.Matrix{{c.GenFloat(), c.GenFloat(), c.GenFloat()}, {c.GenFloat(), c.GenFloat(), c.GenFloat()}}
		}
		rot := []float64{0, 90, 180, 270, 360, -90, 45, 30, c.Range(-720, 720), c.GenFloat()}[c.Intn(10)]
		c.Case("ROT "+mhex(m)+" "+hc.H(rot), "~", mhex(m.Rotate(rot)))
		c.Count("fn:Rotate")
		x, y := c.GenCoord(), c.GenCoord()
		c.Case("ROTA "+mhex(m)+" "+hc.Hs(rot, x, y), "~", mhex(m.RotateAbout(rot, x, y)))
		c.Count("fn:RotateAbout")
	}
	for it := 0; it < c.N*2; it++ {
		var a, b, cc float64
		switch c.Intn(8) {
		case 0: // characteristic polynomial of a symmetric matrix
			p, q, r := c.GenCoord(), c.GenCoord(), c.GenCoord()
			a, b, cc = 1, -p-r, p*r-q*q
		case 1: // double root
			r := c.GenCoord()
			a, b, cc = 1, -2*r, r*r
		case 2: // nearly double root
			r := c.Range(0.5, 2)
			e := math.Pow(10, -c.Range(4, 12))
			a, b, cc = 1, -(2*r + e), r*(r+e)
		case 4: // everything within Epsilon of zero
			z := []float64{0, 1e-11, -1e-11, 1e-10}
			a, b, cc = z[c.Intn(4)], z[c.Intn(4)], z[c.Intn(4)]
		case 3: // no constant term / no linear term / no quadratic term
			a, b, cc = c.GenFloat(), c.GenFloat(), c.GenFloat()
			switch c.Intn(3) {
			case 0:
				a = []float64{0, 1e-11, -1e-11}[c.Intn(3)]
			case 1:
				b = []float64{0, 1e-11}[c.Intn(2)]
			case 2:
				cc = []float64{0, 1e-11}[c.Intn(2)]
			}
		default:
			a, b, cc = c.GenFloat(), c.GenFloat(), c.GenFloat()
		}
		x1, x2 := canvas.VerifC07SolveQuadratic(a, b, cc)
		c.Count("fn:solveQuadratic:" + sqBranch(a, b, cc))
		c.Case("SQ "+hc.Hs(a, b, cc), "=", hc.Hs(x1, x2))
		c.Distinct(fmt.Sprint("SQ", a, b, cc))
	}
	for it := 0; it < c.N*2; it++ {
		var m canvas.Matrix
		cl := c.Intn(8)
		switch cl {
		case 0: // diagonal
			m = canvas.Matrix{{c.GenCoord(), 0, 0}, {0, c.GenCoord(), 0}}
		case 1: // symmetric
			q := c.GenCoord()
			m = canvas.Matrix{{c.GenCoord(), q, 0}, {q, c.GenCoord(), 0}}
		case 2: // symmetric positive definite, order one (the ellipse equations of Transform)
			r := canvas.Identity.Rotate(c.Range(0, 360))
			m = r.Scale(c.Range(0.2, 5), c.Range(0.2, 5)).Mul(r.T())
		case 3: // nearly a multiple of the identity
			r := canvas.Identity.Rotate(c.Range(0, 360))
			s := c.Range(0.5, 2)
			m = r.Scale(s, s*(1+math.Pow(10, -c.Range(4, 13)))).Mul(r.T())
		case 4: // upper / lower triangular
			m = canvas.Matrix{{c.GenCoord(), c.GenCoord(), 0}, {0, c.GenCoord(), 0}}
			if c.Bool() {
				m = m.T()
			}
		case 5: // rotation: no real eigenvalues
			m = canvas.Identity.Rotate(c.Range(1, 179)).Scale(c.Range(0.5, 2), c.Range(0.5, 2))
		case 6: // off-diagonal entries around Epsilon
			e := []float64{1e-10, 0.9e-10, 1.1e-10, 1e-9, -1e-10}[c.Intn(5)]
			m = canvas.Matrix{{c.GenCoord(), e, 0}, {e * []float64{1, 0, -1}[c.Intn(3)], c.GenCoord(), 0}}
		default:
			m = canvas.Matrix{{c.GenFloat(), c.GenFloat(), c.GenFloat()}, {c.GenFloat(), c.GenFloat(), c.GenFloat()}}
		}
		l1, l2, v1, v2 := m.Eigen()
		br := 0
		switch {
		case canvas.Equal(m[1][0], 0) && canvas.Equal(m[0][1], 0):
			br = 0
		case math.IsNaN(l1) && math.IsNaN(l2):
			br = 1
		case !canvas.Equal(m[1][0], 0):
			br = 2
		case !canvas.Equal(m[0][1], 0):
			br = 3
		default:
			br = 4
		}
		c.Count(fmt.Sprintf("fn:Eigen:branch%d", br))
		c.Case("EIGL "+mhex(m), "=", hc.Hs(l1, l2)+" "+strconv.Itoa(br))
		c.Case("EIGV "+mhex(m), "~", hc.Hs(v1.X, v1.Y, v2.X, v2.Y))
		c.Distinct("EIG" + mhex(m))
	}
	for it := 0; it < c.N; it++ {
		p := canvas.Point{X: c.GenFloat(), Y: c.GenFloat()}
		switch c.Intn(6) {
		case 0:
			p = canvas.Point{}
		case 1:
			p.X = 0
		case 2:
			p.Y = 0
		case 3:
			p.Y = 0
			p.X = -math.Abs(p.X)
		}
		nv := p.Norm(1.0)
		c.Case("NORM1 "+hc.Hs(p.X, p.Y), "~", hc.Hs(nv.X, nv.Y))
		c.Case("ANGLE "+hc.Hs(p.X, p.Y), "~", hc.H(p.Angle()))
		t := []float64{0, math.Pi, -math.Pi, 2 * math.Pi, -2 * math.Pi, c.Range(-10, 10), c.Range(-1e-9, 1e-9), 7}[c.Intn(8)]
		c.Case("ANORM "+hc.H(t), "~", hc.H(canvas.VerifC07AngleNorm(t)))
		c.Count("fn:Norm/Angle/angleNorm")
	}
}

// ---- predicates: structured inputs for the generated (L1) definitions -------------------------------

func c07preds(c *hc.Ctx) {
	eps := []float64{0, 1e-10, 0.99e-10, 1.01e-10, -1e-10, -1.01e-10, 1e-9, 1e-12}
	for it := 0; it < c.N; it++ {
		m, cl := GenMatrixAny(c)
		if c.Bool() {
			// perturb one entry around the Epsilon threshold
			i, j := c.Intn(2), c.Intn(2)
			m[i][j] += eps[c.Intn(len(eps))]
		}
		c.Case("L1 Matrix.IsTranslation "+mhex(m), "=", hc.B(m.IsTranslation()))
		c.Case("L1 Matrix.IsRigid "+mhex(m), "=", hc.B(m.IsRigid()))
		c.Case("L1 Matrix.IsSimilarity "+mhex(m), "=", hc.B(m.IsSimilarity()))
		q := m
		if c.Bool() {
			q[c.Intn(2)][c.Intn(3)] += eps[c.Intn(len(eps))]
		}
		c.Case("L1 Matrix.Equals "+mhex(m)+" "+mhex(q), "=", hc.B(m.Equals(q)))
		// oracle: the documented meaning, judged away from the Epsilon band (inside: skipped and counted)
		c.Evals++
		judge := func(name string, got bool, devs ...float64) {
			worst := 0.0
			for _, d := range devs {
				worst = math.Max(worst, math.Abs(d))
			}
			switch {
			case worst <= 0.5e-10 && !got:
				c.Fail("predicate:"+name, name+" is false for a matrix that has the property", map[string]any{"m": marr(m), "q": marr(q)})
			case worst >= 2e-10 && got:
				c.Fail("predicate:"+name, name+" is true for a matrix that does not have the property", map[string]any{"m": marr(m), "q": marr(q)})
			case worst > 0.5e-10 && worst < 2e-10:
				c.Count("pred:skip-epsilon-band")
			}
		}
		ra := m[0][0]*m[0][0] + m[0][1]*m[0][1]
		rb := m[1][0]*m[1][0] + m[1][1]*m[1][1]
		rc := m[0][0]*m[1][0] + m[0][1]*m[1][1]
		judge("IsTranslation", m.IsTranslation(), m[0][0]-1, m[0][1], m[1][0], m[1][1]-1)
		judge("IsRigid", m.IsRigid(), ra-1, rb-1, rc)
		judge("IsSimilarity", m.IsSimilarity(), ra-rb, rc)
		judge("Equals", m.Equals(q), m[0][0]-q[0][0], m[0][1]-q[0][1], m[0][2]-q[0][2], m[1][0]-q[1][0], m[1][1]-q[1][1], m[1][2]-q[1][2])
		c.Count("pred:" + cl + fmt.Sprintf(":T%sR%sS%sE%s", hc.B(m.IsTranslation()), hc.B(m.IsRigid()), hc.B(m.IsSimilarity()), hc.B(m.Equals(q))))
		c.Count("pred:IsTranslation=" + hc.B(m.IsTranslation()))
		c.Count("pred:IsRigid=" + hc.B(m.IsRigid()))
		c.Count("pred:IsSimilarity=" + hc.B(m.IsSimilarity()))
		c.Count("pred:Equals=" + hc.B(m.Equals(q)))
	}
	rh := func(r canvas.Rect) string { return hc.Hs(r.X0, r.Y0, r.X1, r.Y1) }
	for it := 0; it < c.N; it++ {
		x0, y0 := c.GenCoord(), c.GenCoord()
		r := canvas.Rect{X0: x0, Y0: y0, X1: x0 + math.Abs(c.GenCoord()), Y1: y0 + math.Abs(c.GenCoord())}
		var q canvas.Rect
		switch c.Intn(6) {
		case 0:
			q = r
		case 1: // shares an edge, up to Epsilon
			q = canvas.Rect{X0: r.X1 + eps[c.Intn(len(eps))], Y0: r.Y0, X1: r.X1 + 3, Y1: r.Y1}
		case 2: // inside
			q = canvas.Rect{X0: r.X0 + r.W()/4, Y0: r.Y0 + r.H()/4, X1: r.X1 - r.W()/4, Y1: r.Y1 - r.H()/4}
		case 3:
			q = canvas.Rect{}
			if c.Bool() {
				r = q
			}
		default:
			a, b := c.GenCoord(), c.GenCoord()
			q = canvas.Rect{X0: a, Y0: b, X1: a + math.Abs(c.GenCoord()), Y1: b + math.Abs(c.GenCoord())}
		}
		p := canvas.Point{X: []float64{r.X0, r.X1, r.X0 - 1e-10, r.X1 + 1.01e-10, c.GenCoord()}[c.Intn(5)], Y: []float64{r.Y0, r.Y1, c.GenCoord()}[c.Intn(3)]}
		c.Case("L1 Rect.Zero "+rh(q), "=", hc.B(q.Zero()))
		c.Case("L1 Rect.Empty "+rh(q), "=", hc.B(q.Empty()))
		c.Case("L1 Rect.Equals "+rh(r)+" "+rh(q), "=", hc.B(r.Equals(q)))
		c.Case("L1 Rect.Contains "+rh(r)+" "+rh(q), "=", hc.B(r.Contains(q)))
		c.Case("L1 Rect.Overlaps "+rh(r)+" "+rh(q), "=", hc.B(r.Overlaps(q)))
		c.Case("L1 Rect.Touches "+rh(r)+" "+rh(q), "=", hc.B(r.Touches(q)))
		a := r.And(q)
		c.Case("L1 Rect.And "+rh(r)+" "+rh(q), "=", rh(a))
		c.Case("L1 Rect.TouchesPoint "+rh(r)+" "+hc.Hs(p.X, p.Y), "=", hc.B(r.TouchesPoint(p)))
		c.Count(fmt.Sprintf("pred:rect:Z%sE%sEq%sC%sO%sT%sTP%s", hc.B(q.Zero()), hc.B(q.Empty()), hc.B(r.Equals(q)), hc.B(r.Contains(q)), hc.B(r.Overlaps(q)), hc.B(r.Touches(q)), hc.B(r.TouchesPoint(p))))
	}
}

// ---- Decompose and ToSVG: the Lean specification judges what the real code returned --------------

var svgOpRe = regexp.MustCompile(`(translate|rotate|scale|matrix)\(([^)]*)\)`)

// parseSVGTransform turns "translate(3,6) rotate(-45)" into protocol tokens "t <x> <y> r <a>".
func parseSVGTransform(s string) (string, bool) {
	var toks []string
	rest := strings.TrimSpace(s)
	for rest != "" {
		loc := svgOpRe.FindStringSubmatchIndex(rest)
		if loc == nil || loc[0] != 0 {
			return "", false
		}
		name, args := rest[loc[2]:loc[3]], strings.Split(rest[loc[4]:loc[5]], ",")
		want := map[string]int{"translate": 2, "rotate": 1, "scale": 2, "matrix": 6}[name]
		if len(args) != want {
			return "", false
		}
		toks = append(toks, name[:1])
		for _, a := range args {
			f, err := strconv.ParseFloat(strings.TrimSpace(a), 64)
			if err != nil {
				return "", false
			}
			toks = append(toks, hc.H(f))
		}
		rest = strings.TrimSpace(rest[loc[1]:])
	}
	return strings.Join(toks, " "), true
}

func c07describe(c *hc.Ctx) {
	for it := 0; it < c.N*2; it++ {
		m, cl := GenMatrixAny(c)
		if c.Chance(0.15) {
			// exactly representable rigid maps: quarter turns and axis reflections
			m = []canvas.Matrix{{{0, -1, 0}, {1, 0, 0}}, {{-1, 0, 0}, {0, -1, 0}}, {{-1, 0, 0}, {0, 1, 0}}, {{1, 0, 0}, {0, -1, 0}}, {{0, 1, 0}, {1, 0, 0}}, {{0, -1, 0}, {-1, 0, 0}}, canvas.Identity}[c.Intn(7)]
			if c.Bool() {
				m[0][2], m[1][2] = c.GenCoord(), c.GenCoord()
			}
			cl = "exact-rigid"
		}
		if c.Chance(0.35) {
			// matrices whose decomposed notation is short (so that ToSVG prefers it over matrix(...)):
			// integer translation, rotations by multiples of 15 degrees, one-digit scales, any part omitted
			m = canvas.Identity
			if c.Chance(0.7) {
				m = m.Translate(float64(c.Intn(21)-10), float64(c.Intn(21)-10))
			}
			if c.Chance(0.6) {
				m = m.Rotate(float64(c.Intn(24)) * 15)
			}
			if c.Chance(0.6) {
				sc := []float64{2, 3, 0.5, -1, -2, 1, 1.5}
				m = m.Scale(sc[c.Intn(len(sc))], sc[c.Intn(len(sc))])
			}
			if c.Chance(0.5) {
				m = m.Rotate(float64(c.Intn(24)) * 15)
			}
			cl = "nice-decomposed"
		}
		c.Evals++
		tx, ty, phi, sx, sy, theta := m.Decompose()
		merged := canvas.Equal(sx, 1) && canvas.Equal(sy, 1)
		c.Count("decompose:" + cl)
		if merged {
			c.Count("decompose:merged-rotation")
		}
		if sy < 0 {
			c.Count("decompose:reflection")
			if canvas.Equal(sx, 1) && canvas.Equal(sy, -1) {
				c.Count("decompose:rigid-reflection")
			}
		}
		c.Case("DEC "+mhex(m)+" "+hc.H(1e-9)+" "+hc.Hs(tx, ty, phi, sx, sy, theta), "!", "decompose")

		h := []float64{0, 10, 100, c.Range(0, 300)}[c.Intn(4)]
		s := m.ToSVG(h)
		ops, ok := parseSVGTransform(s)
		if !ok {
			c.Fail("svg-syntax", "ToSVG returned a string that is not an SVG transform list: "+s, map[string]any{"m": marr(m), "h": h})
			continue
		}
		form := "decomposed"
		switch {
		case s == "":
			form = "empty"
		case strings.HasPrefix(s, "matrix"):
			form = "matrix"
		}
		c.Count("tosvg:" + form)
		shape := ""
		for _, t := range strings.Fields(ops) {
			if len(t) == 1 {
				shape += t
			}
		}
		c.Count("tosvg:shape:" + shape)
		suffix := ""
		if canvas.Equal(m[0][2], 0) && canvas.Equal(m[1][2], 0) && !canvas.Equal(h, 0) && form != "matrix" {
			suffix = " +zero-translation"
			c.Count("tosvg:zero-translation-with-height")
		}
		line := strings.TrimSpace("SVG " + hc.H(h) + " " + mhex(m) + " " + hc.H(1e-7) + " " + ops)
		c.Case(line, "!", "tosvg"+suffix)
		if it == 0 {
			c.Sample(fmt.Sprintf("ToSVG(%v) of %v = %q", h, m, s))
		}
	}
}
