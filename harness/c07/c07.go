package main

import (
	"fmt"
	"math"
	"strings"

	"github.com/tdewolff/canvas"
	"verifharness/hc"
)

func main() { hc.Main("C07", run) }

func run(c *hc.Ctx) {
	c07(c)
	c07laws(c)
	c07funcs(c)
	c07preds(c)
	c07arcs(c)
	c07paths(c)
	c07describe(c)
}

func GenMatrix(c *hc.Ctx) canvas.Matrix {
	m := canvas.Identity
	n := 1 + c.Intn(4)
	for i := 0; i < n; i++ {
		switch c.Intn(7) {
		case 0:
			m = m.Translate(c.GenCoord(), c.GenCoord())
		case 1:
			m = m.Rotate(float64(c.Intn(72)) * 5)
		case 2:
			m = m.Scale(c.Range(0.2, 3), c.Range(0.2, 3))
		case 3:
			m = m.Shear(c.Range(-1.5, 1.5), c.Range(-1.5, 1.5))
		case 4:
			m = m.ReflectX()
		case 5:
			m = m.ReflectY()
		case 6:
			m = m.Rotate(c.Range(0, 360))
		}
	}
	return m
}

func c07(c *hc.Ctx) {
	// 1. L1 correspondence: generated Point/Matrix/Rect/Bézier definitions vs the real functions
	names := hc.L1Names([]string{"Core", "Bezier"}, func(file, recv, name string) bool {
		return recv == "Point" || recv == "Matrix" || recv == "Rect" || name == "snap" || strings.Contains(name, "BezierPos")
	})
	c.L1Corr(names, c.N)

	// 2. Refinement of the property predicate on the real code: Transform maps every point.
	np := c.N
	for it := 0; it < np; it++ {
		kinds := []string{"L", "LQC", "LQCA", "A", "LAZ"}[c.Intn(5)]
		p := c.GenPath(kinds, 5, 2)
		if c.Chance(0.2) {
			// large radii: flat arcs whose ellipse equation has tiny entries (1/r^2)
			f := []float64{10, 40, 150}[c.Intn(3)]
			rx := (math.Abs(c.GenCoord()) + 0.5) * f
			p.MoveTo(c.GenCoord(), c.GenCoord())
			p.ArcTo(rx, rx*c.Range(0.85, 1.15), float64(c.Intn(24))*15, c.Bool(), c.Bool(), c.GenCoord(), c.GenCoord())
			c.Count("large-radius-arc")
		}
		if c.Chance(0.25) {
			// runs of arcs that share some but not all parameters (petals: identical radii, different
			// rotation; same rotation, different radii; identical arcs repeated): any per-command state
			// carried from one arc to the next inside Transform shows here and nowhere else
			rx, ry := math.Abs(c.GenCoord())+0.5, math.Abs(c.GenCoord())+0.5
			rot := float64(c.Intn(24)) * 15
			mode := c.Intn(3)
			x, y := c.GenCoord(), c.GenCoord()
			p.MoveTo(x, y)
			for k, n := 0, 2+c.Intn(3); k < n; k++ {
				switch mode {
				case 0:
					rot = float64(c.Intn(24)) * 15
				case 1:
					ry = math.Abs(c.GenCoord()) + 0.5
				}
				// chord shorter than the minor axis: ArcTo keeps the radii as given (bit-identical)
				r := 0.9 * math.Min(rx, ry)
				x, y = x+c.Range(-r, r), y+c.Range(-r, r)
				p.ArcTo(rx, ry, rot, c.Bool(), c.Bool(), x, y)
			}
			c.Count("arc-run:" + []string{"same-radii", "same-rotation", "repeated"}[mode])
		}
		m := GenMatrix(c)
		det := m.Det()
		if math.Abs(det) < 1e-3 {
			c.Count("skip-near-singular")
			continue
		}
		c.Evals++
		var q *canvas.Path
		if msg := hc.Try(func() { q = p.Copy().Transform(m) }); msg != "" {
			c.Fail("panic", "Transform panicked: "+msg, map[string]any{"path": p.String(), "m": fmt.Sprint(m)})
			continue
		}
		a, err1 := hc.Decode(p.Data())
		b, err2 := hc.Decode(q.Data())
		if err1 != nil || err2 != nil || len(a) != len(b) {
			c.Fail("structure", "Transform changed the command structure", map[string]any{"path": p.String(), "m": fmt.Sprint(m), "out": q.String()})
			continue
		}
		nan := false
		for _, v := range q.Data() {
			nan = nan || math.IsNaN(v) || math.IsInf(v, 0)
		}
		if nan {
			// regression class of C07-arc-transform-nan-radii (fixed by 2c3bd2a)
			c.Fail("transform-nan", "Transform wrote NaN/Inf into the path", map[string]any{"path": p.String(), "m": []float64{m[0][0], m[0][1], m[0][2], m[1][0], m[1][1], m[1][2]}, "out": q.String()})
			continue
		}
		c.Distinct(p.String() + fmt.Sprint(m))
		scale := math.Sqrt(math.Abs(det)) + math.Abs(m[0][0]) + math.Abs(m[0][1]) + math.Abs(m[1][0]) + math.Abs(m[1][1])
		tol := 1e-7 * (1 + scale) * 50
		bad := ""
		badSeg := -1
		for i := range a {
			if bad != "" {
				break
			}
			badSeg = i
			if a[i].Kind != b[i].Kind {
				bad = fmt.Sprintf("segment %d kind %c -> %c", i, a[i].Kind, b[i].Kind)
				break
			}
			if a[i].Kind == 'M' {
				continue
			}
			c.Count("seg:" + string(a[i].Kind))
			const n = 16
			sa := hc.SampleSeg(a[i], n)
			if a[i].Kind != 'A' {
				sb := hc.SampleSeg(b[i], n)
				for k := range sa {
					mp := m.Dot(canvas.Point{X: sa[k].X, Y: sa[k].Y})
					if d := (hc.P2{mp.X, mp.Y}).Dist(sb[k]); d > tol {
						bad = fmt.Sprintf("segment %d (%c) t=%d/%d: image %v vs transformed %v (d=%g)", i, a[i].Kind, k, n, mp, sb[k], d)
						break
					}
				}
			} else {
				// arcs: parametrisation by angle is not affine invariant; compare as ordered point sets.
				// Distance is measured to the POLYLINE through 2048 samples of the transformed arc (not to
				// the nearest sample, whose spacing is very uneven on eccentric ellipses); the allowance is
				// the sagitta of the sampling plus the library's own angle round-off, relative to the size.
				fine := hc.SampleSeg(b[i], 2048)
				ext := 1.0
				for _, q := range fine {
					ext = math.Max(ext, q.Dist(fine[0]))
				}
				allow := tol + 2e-4*ext
				prev := -1
				for k := range sa {
					mp := m.Dot(canvas.Point{X: sa[k].X, Y: sa[k].Y})
					pp := hc.P2{X: mp.X, Y: mp.Y}
					best, bi := math.Inf(1), 0
					for j := 0; j+1 < len(fine); j++ {
						if d := hc.DistPointSeg(pp, fine[j], fine[j+1]); d < best {
							best, bi = d, j
						}
					}
					if best > allow {
						bad = fmt.Sprintf("arc segment %d: image point %v is %g away from the transformed arc (allowance %g)", i, mp, best, allow)
						break
					}
					if bi < prev-32 {
						bad = fmt.Sprintf("arc segment %d: direction not preserved (index %d after %d)", i, bi, prev)
						break
					}
					prev = bi
				}
				if det < 0 {
					c.Count("arc-reflected")
				}
			}
			if bad != "" {
				break
			}
		}
		if bad != "" {
			kind := "transform-image"
			if badSeg >= 0 && a[badSeg].Kind == 'A' && eigenAbsEpsilon(a[badSeg], m) {
				kind += "+eigen-abs-epsilon"
			}
			c.Fail(kind, bad, map[string]any{"path": p.String(), "m": []float64{m[0][0], m[0][1], m[0][2], m[1][0], m[1][1], m[1][2]}, "out": q.String()})
		}
		if it == 0 {
			c.Sample(fmt.Sprintf("Transform %q by %v", p.String(), m))
		}
	}

	// 3. Decompose describes the same transformation
	for it := 0; it < c.N; it++ {
		m := GenMatrix(c)
		c.Evals++
		tx, ty, phi, sx, sy, theta := m.Decompose()
		r := canvas.Identity.Translate(tx, ty).Rotate(phi).Scale(sx, sy).Rotate(theta)
		ok := true
		for i := 0; i < 2; i++ {
			for j := 0; j < 3; j++ {
				if math.Abs(r[i][j]-m[i][j]) > 1e-8*(1+math.Abs(m[i][j])) {
					ok = false
				}
			}
		}
		c.Count("decompose")
		if !ok {
			c.Fail("decompose", fmt.Sprintf("Decompose of %v recomposes to %v", m, r), []float64{m[0][0], m[0][1], m[0][2], m[1][0], m[1][1], m[1][2]})
		}
	}
}

// algebraic laws evaluated on the real code (tolerance-based); gives the concrete input when a
// theorem about the translated definition no longer holds
// eigenAbsEpsilon: cause predicate of a known defect. Path.Transform finds the radii of a transformed
// arc as eigenvalues of Q = T^-T diag(1/rx^2, 1/ry^2) T^-1 with solveQuadraticFormula, which tests
// its discriminant and constant term against the ABSOLUTE Epsilon 1e-10 although the entries of Q are
// of size 1/r^2. True when one of those tests fires for this arc although the exact quantity is not 0.
func eigenAbsEpsilon(s hc.Seg, m canvas.Matrix) bool {
	sin, cos := math.Sincos(s.Phi)
	// T = m * Rot(phi) (linear part)
	t00 := m[0][0]*cos + m[0][1]*sin
	t01 := -m[0][0]*sin + m[0][1]*cos
	t10 := m[1][0]*cos + m[1][1]*sin
	t11 := -m[1][0]*sin + m[1][1]*cos
	det := t00*t11 - t01*t10
	if det == 0 {
		return false
	}
	i00, i01, i10, i11 := t11/det, -t01/det, -t10/det, t00/det
	ex, ey := 1/(s.Rx*s.Rx), 1/(s.Ry*s.Ry)
	q00 := i00*i00*ex + i10*i10*ey
	q01 := i00*i01*ex + i10*i11*ey
	q11 := i01*i01*ex + i11*i11*ey
	disc := (q00-q11)*(q00-q11) + 4*q01*q01
	dq := q00*q11 - q01*q01
	rel := math.Sqrt(disc) / (q00 + q11) // relative spread of the eigenvalues
	return (disc <= 1.0001e-10 || math.Abs(dq) <= 1.0001e-10) && rel > 1e-9
}

func c07laws(c *hc.Ctx) {
	{
		near := func(a, b canvas.Point, s float64) bool { return math.Hypot(a.X-b.X, a.Y-b.Y) <= 1e-9*(1+s) }
		mag := func(m canvas.Matrix) float64 {
			s := 0.0
			for i := 0; i < 2; i++ {
				for j := 0; j < 3; j++ {
					s += math.Abs(m[i][j])
				}
			}
			return s
		}
		arr := func(m canvas.Matrix) []float64 {
			return []float64{m[0][0], m[0][1], m[0][2], m[1][0], m[1][1], m[1][2]}
		}
		for it := 0; it < c.N; it++ {
			m, q := GenMatrix(c), GenMatrix(c)
			p := canvas.Point{X: c.GenCoord(), Y: c.GenCoord()}
			c.Evals++
			c.Count("laws")
			s := mag(m)*mag(q)*(1+math.Abs(p.X)+math.Abs(p.Y)) + 1
			if !near(m.Mul(q).Dot(p), m.Dot(q.Dot(p)), s) {
				c.Fail("law-dot-mul", "(m.Mul(q)).Dot(p) != m.Dot(q.Dot(p))", map[string]any{"m": arr(m), "q": arr(q), "p": p})
			}
			if d := m.Det(); math.Abs(d) > 1e-2 {
				inv := m.Inv()
				s2 := mag(m)*mag(inv)*(1+math.Abs(p.X)+math.Abs(p.Y)) + 1
				if !near(inv.Dot(m.Dot(p)), p, s2) || !near(m.Dot(inv.Dot(p)), p, s2) {
					c.Fail("law-inv", "Inv does not invert", map[string]any{"m": arr(m), "p": p})
				}
				if math.Abs(m.Mul(q).Det()-d*q.Det()) > 1e-9*(1+s*s) {
					c.Fail("law-det", "det(m q) != det m det q", map[string]any{"m": arr(m), "q": arr(q)})
				}
			}
			t := m.T()
			if t[0][1] != m[1][0] || t[1][0] != m[0][1] || t[0][0] != m[0][0] || t[1][1] != m[1][1] || t.T() != m {
				c.Fail("law-transpose", "T is not the transpose", map[string]any{"m": arr(m)})
			}
			x, y := c.GenCoord(), c.GenCoord()
			if !near(canvas.Identity.Translate(x, y).Dot(p), canvas.Point{X: p.X + x, Y: p.Y + y}, s) ||
				!near(canvas.Identity.ReflectXAbout(x).Dot(p), canvas.Point{X: 2*x - p.X, Y: p.Y}, s) ||
				!near(canvas.Identity.ReflectYAbout(y).Dot(p), canvas.Point{X: p.X, Y: 2*y - p.Y}, s) ||
				!near(canvas.Identity.ScaleAbout(2, 3, x, y).Dot(canvas.Point{X: x, Y: y}), canvas.Point{X: x, Y: y}, s) ||
				!near(canvas.Identity.RotateAbout(33, x, y).Dot(canvas.Point{X: x, Y: y}), canvas.Point{X: x, Y: y}, s) ||
				!near(m.Scale(x, y).Dot(p), m.Dot(canvas.Point{X: x * p.X, Y: y * p.Y}), s*(1+math.Abs(x)+math.Abs(y))) ||
				!near(m.Shear(x, y).Dot(p), m.Dot(canvas.Point{X: p.X + x*p.Y, Y: y*p.X + p.Y}), s*(1+math.Abs(x)+math.Abs(y))) {
				c.Fail("law-elementary", "elementary transformation does not act as documented", map[string]any{"m": arr(m), "p": p, "x": x, "y": y})
			}
		}
	}
}
