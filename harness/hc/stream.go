package hc

// WithStream runs f with the generator switched to an independent stream derived from the seed and
// the label; the main stream is not advanced, so adding a new group of cases in front of existing
// ones does not change the inputs the existing generators draw.
func (c *Ctx) WithStream(label string, f func()) {
	saved := c.rng
	h := uint64(14695981039346656037)
	for i := 0; i < len(label); i++ {
		h = (h ^ uint64(label[i])) * 1099511628211
	}
	c.rng = seedState(c.Seed ^ h)
	defer func() { c.rng = saved }()
	f()
}
