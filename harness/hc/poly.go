package hc

// Polygon generators and extraction shared by the region properties (C01, C02, C06, C04, C14).

import (
	"math"
	"sort"
	"strings"

	"github.com/tdewolff/canvas"
)

// Contours extracts the vertex lists of a flat path from its raw data (each subpath one contour;
// the closing vertex is not repeated). ok=false if the path has curved segments or is malformed.
func Contours(p *canvas.Path) (cs [][]P2, ok bool) {
	segs, err := Decode(p.Data())
	if err != nil {
		return nil, false
	}
	for _, sp := range Subpaths(segs) {
		var c []P2
		for _, s := range sp {
			switch s.Kind {
			case 'M', 'L':
				c = append(c, s.End)
			case 'Z':
			default:
				return nil, false
			}
		}
		if len(c) > 1 && c[0] == c[len(c)-1] {
			c = c[:len(c)-1]
		}
		cs = append(cs, c)
	}
	return cs, true
}

// PolyTokens formats contours as the protocol's poly block: k {n x y ...}
func PolyTokens(cs [][]P2) string {
	var sb strings.Builder
	sb.WriteString(itoa(len(cs)))
	for _, c := range cs {
		sb.WriteByte(' ')
		sb.WriteString(itoa(len(c)))
		for _, p := range c {
			sb.WriteByte(' ')
			sb.WriteString(H(p.X))
			sb.WriteByte(' ')
			sb.WriteString(H(p.Y))
		}
	}
	return sb.String()
}

func itoa(n int) string {
	if n == 0 {
		return "0"
	}
	var b [20]byte
	i := len(b)
	for n > 0 {
		i--
		b[i] = byte('0' + n%10)
		n /= 10
	}
	return string(b[i:])
}

// WnFloat is the float64 version of the half-open crossing rule (search oracle only; the deciding
// evaluation is the exact Lean specification).
func WnFloat(p P2, cs [][]P2) int {
	w := 0
	for _, c := range cs {
		n := len(c)
		for i := 0; i < n; i++ {
			a, b := c[i], c[(i+1)%n]
			l := (b.X-a.X)*(p.Y-a.Y) - (p.X-a.X)*(b.Y-a.Y)
			if a.Y <= p.Y && p.Y < b.Y {
				if l > 0 {
					w++
				}
			} else if b.Y <= p.Y && p.Y < a.Y {
				if l < 0 {
					w--
				}
			}
		}
	}
	return w
}

func DistToContours(p P2, cs [][]P2) float64 {
	best := math.Inf(1)
	for _, c := range cs {
		n := len(c)
		for i := 0; i < n; i++ {
			if d := DistPointSeg(p, c[i], c[(i+1)%n]); d < best {
				best = d
			}
		}
	}
	return best
}

func Area(c []P2) float64 {
	a := 0.0
	for i := range c {
		j := (i + 1) % len(c)
		a += c[i].X*c[j].Y - c[j].X*c[i].Y
	}
	return a / 2
}

// GenPolygon returns one polygon path of the given class.
//
//	0 grid polygon (integer vertices in [-8,8]^2, vertex reuse, axis-parallel edges)
//	1 perturbed grid polygon (1e-9 .. 1e-7 offsets: intersections closer than the snap grid)
//	2 star polygon / regular polygon
//	3 rectangles (nested, reversed, coincident edges)
//	4 curved (circle / ellipse / random Béziers)
func (c *Ctx) GenPolygon(class int, pool *[]P2, closeAll bool) *canvas.Path {
	p := &canvas.Path{}
	switch class {
	case 0, 1:
		ns := 1
		if c.Chance(0.3) {
			ns = 1 + c.Intn(3)
		}
		for s := 0; s < ns; s++ {
			k := 3 + c.Intn(7)
			var prev P2
			for i := 0; i < k; i++ {
				var v P2
				if len(*pool) > 0 && c.Chance(0.3) {
					v = (*pool)[c.Intn(len(*pool))]
				} else {
					v = P2{float64(c.Intn(17) - 8), float64(c.Intn(17) - 8)}
					if i > 0 && c.Chance(0.2) {
						if c.Bool() {
							v.X = prev.X
						} else {
							v.Y = prev.Y
						}
					}
					if class == 1 && c.Chance(0.5) {
						v.X += c.Norm() * math.Pow(10, -7-2*c.Float())
						v.Y += c.Norm() * math.Pow(10, -7-2*c.Float())
					}
				}
				*pool = append(*pool, v)
				if i == 0 {
					p.MoveTo(v.X, v.Y)
				} else {
					p.LineTo(v.X, v.Y)
				}
				prev = v
			}
			if closeAll || c.Chance(0.9) {
				p.Close()
			}
		}
	case 2:
		n := 3 + c.Intn(8)
		d := 1 + c.Intn(n/2)
		r := float64(2 + c.Intn(6))
		cx, cy := float64(c.Intn(9)-4), float64(c.Intn(9)-4)
		rot := c.Range(0, 2*math.Pi)
		if c.Chance(0.5) {
			rot = float64(c.Intn(8)) * math.Pi / 4
		}
		for i := 0; i < n; i++ {
			a := rot + 2*math.Pi*float64(i*d%n)/float64(n)
			x, y := cx+r*math.Cos(a), cy+r*math.Sin(a)
			if i == 0 {
				p.MoveTo(x, y)
			} else {
				p.LineTo(x, y)
			}
		}
		p.Close()
	case 3:
		ns := 1 + c.Intn(3)
		for s := 0; s < ns; s++ {
			x0, y0 := float64(c.Intn(13)-8), float64(c.Intn(13)-8)
			w, h := float64(1+c.Intn(8)), float64(1+c.Intn(8))
			if c.Bool() {
				p.MoveTo(x0, y0)
				p.LineTo(x0+w, y0)
				p.LineTo(x0+w, y0+h)
				p.LineTo(x0, y0+h)
			} else {
				p.MoveTo(x0, y0)
				p.LineTo(x0, y0+h)
				p.LineTo(x0+w, y0+h)
				p.LineTo(x0+w, y0)
			}
			p.Close()
		}
	default:
		switch c.Intn(3) {
		case 0:
			p = canvas.Circle(float64(1+c.Intn(6))).Translate(float64(c.Intn(9)-4), float64(c.Intn(9)-4))
		case 1:
			p = canvas.Ellipse(float64(1+c.Intn(6)), float64(1+c.Intn(4))).Translate(float64(c.Intn(9)-4), float64(c.Intn(9)-4))
		default:
			p.MoveTo(c.GenCoord()/2, c.GenCoord()/2)
			for i := 0; i < 2+c.Intn(3); i++ {
				if c.Bool() {
					p.QuadTo(c.GenCoord()/2, c.GenCoord()/2, c.GenCoord()/2, c.GenCoord()/2)
				} else {
					p.CubeTo(c.GenCoord()/2, c.GenCoord()/2, c.GenCoord()/2, c.GenCoord()/2, c.GenCoord()/2, c.GenCoord()/2)
				}
			}
			p.Close()
		}
	}
	return p
}

// SamplePoints picks query points at cell centres of the arrangement grid of all vertices plus a
// few random ones.
func (c *Ctx) SamplePoints(m int, css ...[][]P2) []P2 {
	var xs, ys []float64
	for _, cs := range css {
		for _, ct := range cs {
			for _, v := range ct {
				xs = append(xs, v.X)
				ys = append(ys, v.Y)
			}
		}
	}
	if len(xs) == 0 {
		return nil
	}
	xs, ys = uniqSorted(xs), uniqSorted(ys)
	mid := func(v []float64) []float64 {
		out := []float64{v[0] - 0.37, v[len(v)-1] + 0.41}
		for i := 0; i+1 < len(v); i++ {
			if v[i+1]-v[i] > 1e-6 {
				out = append(out, v[i]+(v[i+1]-v[i])*0.4713)
			}
		}
		return out
	}
	mx, my := mid(xs), mid(ys)
	var pts []P2
	for i := 0; i < m; i++ {
		if c.Chance(0.85) {
			pts = append(pts, P2{mx[c.Intn(len(mx))], my[c.Intn(len(my))]})
		} else {
			pts = append(pts, P2{c.Range(xs[0]-1, xs[len(xs)-1]+1), c.Range(ys[0]-1, ys[len(ys)-1]+1)})
		}
	}
	return pts
}

func uniqSorted(v []float64) []float64 {
	s := append([]float64(nil), v...)
	sort.Float64s(s)
	out := s[:0]
	for i, x := range s {
		if i == 0 || x != s[i-1] {
			out = append(out, x)
		}
	}
	return out
}

func PtsTokens(pts []P2) string {
	var sb strings.Builder
	sb.WriteString(itoa(len(pts)))
	for _, p := range pts {
		sb.WriteByte(' ')
		sb.WriteString(H(p.X))
		sb.WriteByte(' ')
		sb.WriteString(H(p.Y))
	}
	return sb.String()
}

// OverlappingEdges reports whether two edges of the given contours (of one or several paths)
// overlap collinearly over a positive length (coincident contours, a contour running back over its
// own edge, zero-area spikes). Exact for small-integer coordinates; used only to NAME failure classes.
func OverlappingEdges(css ...[][]P2) bool {
	type edge struct{ a, b P2 }
	var es []edge
	for _, cs := range css {
		for _, c := range cs {
			for i := range c {
				a, b := c[i], c[(i+1)%len(c)]
				if a != b {
					es = append(es, edge{a, b})
				}
			}
		}
	}
	for i := range es {
		for j := i + 1; j < len(es); j++ {
			e, f := es[i], es[j]
			d := e.b.Sub(e.a)
			if d.Cross(f.a.Sub(e.a)) != 0 || d.Cross(f.b.Sub(e.a)) != 0 {
				continue
			}
			// collinear: compare parameter ranges along d
			l2 := d.Dot(d)
			t0, t1 := f.a.Sub(e.a).Dot(d)/l2, f.b.Sub(e.a).Dot(d)/l2
			if t0 > t1 {
				t0, t1 = t1, t0
			}
			if math.Min(t1, 1)-math.Max(t0, 0) > 0 {
				return true
			}
		}
	}
	return false
}

// SubGridVertices reports whether two DISTINCT vertices of the given contours lie closer together
// than eps (both coordinates), i.e. within a few cells of the sweep's snap grid of each other without
// coinciding. A cause predicate decidable from the input; used only to NAME failure classes.
func SubGridVertices(eps float64, css ...[][]P2) bool {
	var vs []P2
	for _, cs := range css {
		for _, c := range cs {
			vs = append(vs, c...)
		}
	}
	sort.Slice(vs, func(i, j int) bool { return vs[i].X < vs[j].X })
	for i := range vs {
		for j := i + 1; j < len(vs) && vs[j].X-vs[i].X < eps; j++ {
			if vs[i] != vs[j] && math.Abs(vs[i].Y-vs[j].Y) < eps {
				return true
			}
		}
	}
	return false
}
