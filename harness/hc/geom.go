package hc

// Independent geometry used by the oracles: decoding of the raw path data array, exact-formula
// evaluation of segments (Bernstein form; SVG 1.1 appendix F.6 centre parametrisation for arcs),
// dense sampling, distances. Nothing here calls the library's own evaluators.

import (
	"fmt"
	"math"
	"strings"

	"github.com/tdewolff/canvas"
)

type P2 struct{ X, Y float64 }

func (a P2) Sub(b P2) P2        { return P2{a.X - b.X, a.Y - b.Y} }
func (a P2) Add(b P2) P2        { return P2{a.X + b.X, a.Y + b.Y} }
func (a P2) Mul(f float64) P2   { return P2{a.X * f, a.Y * f} }
func (a P2) Len() float64       { return math.Hypot(a.X, a.Y) }
func (a P2) Dist(b P2) float64  { return math.Hypot(a.X-b.X, a.Y-b.Y) }
func (a P2) Cross(b P2) float64 { return a.X*b.Y - a.Y*b.X }
func (a P2) Dot(b P2) float64   { return a.X*b.X + a.Y*b.Y }

type Seg struct {
	Kind           byte // 'M','L','Q','C','A','Z'
	P0, P1, P2, P3 P2   // start, controls, end (end is the last used)
	Rx, Ry, Phi    float64
	Large, Sweep   bool
	End            P2
}

// Decode splits raw path data into segments, validating the framing. ok=false if malformed.
func Decode(d []float64) (segs []Seg, err error) {
	var start, cur P2
	i := 0
	for i < len(d) {
		cmd := d[i]
		n := 0
		switch cmd {
		case canvas.MoveToCmd, canvas.LineToCmd, canvas.CloseCmd:
			n = 4
		case canvas.QuadToCmd:
			n = 6
		case canvas.CubeToCmd, canvas.ArcToCmd:
			n = 8
		default:
			return nil, fmt.Errorf("bad command %v at %d", cmd, i)
		}
		if i+n > len(d) || d[i+n-1] != cmd {
			return nil, fmt.Errorf("bad framing of command %v at %d", cmd, i)
		}
		end := P2{d[i+n-3], d[i+n-2]}
		s := Seg{P0: cur, End: end}
		switch cmd {
		case canvas.MoveToCmd:
			s.Kind = 'M'
			start = end
		case canvas.LineToCmd:
			s.Kind = 'L'
		case canvas.CloseCmd:
			s.Kind = 'Z'
			_ = start
		case canvas.QuadToCmd:
			s.Kind = 'Q'
			s.P1 = P2{d[i+1], d[i+2]}
		case canvas.CubeToCmd:
			s.Kind = 'C'
			s.P1 = P2{d[i+1], d[i+2]}
			s.P2 = P2{d[i+3], d[i+4]}
		case canvas.ArcToCmd:
			s.Kind = 'A'
			s.Rx, s.Ry, s.Phi = d[i+1], d[i+2], d[i+3]
			fl := d[i+4]
			s.Large = fl == 1 || fl == 3
			s.Sweep = fl == 2 || fl == 3
		}
		segs = append(segs, s)
		cur = end
		i += n
	}
	return segs, nil
}

// ArcCenter implements SVG 1.1 F.6.5 (with F.6.6 radii correction). Returns centre, theta1, dtheta, rx, ry.
func ArcCenter(s Seg) (c P2, th1, dth, rx, ry float64) {
	rx, ry = math.Abs(s.Rx), math.Abs(s.Ry)
	sin, cos := math.Sincos(s.Phi)
	dx, dy := (s.P0.X-s.End.X)/2, (s.P0.Y-s.End.Y)/2
	x1p := cos*dx + sin*dy
	y1p := -sin*dx + cos*dy
	lam := x1p*x1p/(rx*rx) + y1p*y1p/(ry*ry)
	if lam > 1 {
		r := math.Sqrt(lam)
		rx *= r
		ry *= r
	}
	num := rx*rx*ry*ry - rx*rx*y1p*y1p - ry*ry*x1p*x1p
	den := rx*rx*y1p*y1p + ry*ry*x1p*x1p
	f := 0.0
	if den > 0 && num > 0 {
		f = math.Sqrt(num / den)
	}
	if s.Large == s.Sweep {
		f = -f
	}
	cxp := f * rx * y1p / ry
	cyp := -f * ry * x1p / rx
	c = P2{cos*cxp - sin*cyp + (s.P0.X+s.End.X)/2, sin*cxp + cos*cyp + (s.P0.Y+s.End.Y)/2}
	ang := func(ux, uy, vx, vy float64) float64 {
		return math.Atan2(ux*vy-uy*vx, ux*vx+uy*vy)
	}
	th1 = ang(1, 0, (x1p-cxp)/rx, (y1p-cyp)/ry)
	dth = ang((x1p-cxp)/rx, (y1p-cyp)/ry, (-x1p-cxp)/rx, (-y1p-cyp)/ry)
	if !s.Sweep && dth > 0 {
		dth -= 2 * math.Pi
	} else if s.Sweep && dth < 0 {
		dth += 2 * math.Pi
	}
	return
}

// At evaluates the segment at parameter t in [0,1] (arcs: linear in the centre angle).
func (s Seg) At(t float64) P2 {
	switch s.Kind {
	case 'L', 'Z':
		return P2{s.P0.X + (s.End.X-s.P0.X)*t, s.P0.Y + (s.End.Y-s.P0.Y)*t}
	case 'Q':
		u := 1 - t
		return P2{u*u*s.P0.X + 2*u*t*s.P1.X + t*t*s.End.X, u*u*s.P0.Y + 2*u*t*s.P1.Y + t*t*s.End.Y}
	case 'C':
		u := 1 - t
		a, b, c, d := u*u*u, 3*u*u*t, 3*u*t*t, t*t*t
		return P2{a*s.P0.X + b*s.P1.X + c*s.P2.X + d*s.End.X, a*s.P0.Y + b*s.P1.Y + c*s.P2.Y + d*s.End.Y}
	case 'A':
		c, th1, dth, rx, ry := ArcCenter(s)
		th := th1 + dth*t
		sin, cos := math.Sincos(s.Phi)
		ex, ey := rx*math.Cos(th), ry*math.Sin(th)
		return P2{c.X + cos*ex - sin*ey, c.Y + sin*ex + cos*ey}
	}
	return s.End
}

// SamplePath returns, per drawing segment (not M), n+1 points along it.
func SampleSeg(s Seg, n int) []P2 {
	out := make([]P2, n+1)
	for i := 0; i <= n; i++ {
		out[i] = s.At(float64(i) / float64(n))
	}
	out[0] = s.P0
	out[n] = s.End
	return out
}

func DistPointSeg(p, a, b P2) float64 {
	ab := b.Sub(a)
	l2 := ab.Dot(ab)
	if l2 == 0 {
		return p.Dist(a)
	}
	t := p.Sub(a).Dot(ab) / l2
	if t < 0 {
		t = 0
	} else if t > 1 {
		t = 1
	}
	return p.Dist(a.Add(ab.Mul(t)))
}

func DistPointPolyline(p P2, pl []P2) float64 {
	best := math.Inf(1)
	if len(pl) == 1 {
		return p.Dist(pl[0])
	}
	for i := 0; i+1 < len(pl); i++ {
		if d := DistPointSeg(p, pl[i], pl[i+1]); d < best {
			best = d
		}
	}
	return best
}

func PolylineLen(pl []P2) float64 {
	l := 0.0
	for i := 0; i+1 < len(pl); i++ {
		l += pl[i].Dist(pl[i+1])
	}
	return l
}

// Subpaths groups segments into subpaths (each starting with an M).
func Subpaths(segs []Seg) [][]Seg {
	var out [][]Seg
	for _, s := range segs {
		if s.Kind == 'M' || len(out) == 0 {
			out = append(out, nil)
		}
		out[len(out)-1] = append(out[len(out)-1], s)
	}
	return out
}

func DataHex(d []float64) string {
	var sb strings.Builder
	for i, f := range d {
		if i > 0 {
			sb.WriteByte(' ')
		}
		sb.WriteString(H(f))
	}
	return sb.String()
}

// ---- random paths ----------------------------------------------------------------------------

func (c *Ctx) GenCoord() float64 {
	switch c.Intn(6) {
	case 0, 1:
		return float64(c.Intn(21) - 10)
	case 2:
		return float64(c.Intn(81)-40) / 4
	default:
		return math.Round(c.Range(-20, 20)*1000) / 1000
	}
}

// GenPath builds a random path through the public builder. kinds is a string of allowed commands
// out of "LQCAZ"; subs is the maximum number of subpaths.
func (c *Ctx) GenPath(kinds string, maxSegs, subs int) *canvas.Path {
	p := &canvas.Path{}
	ns := 1 + c.Intn(subs)
	for s := 0; s < ns; s++ {
		p.MoveTo(c.GenCoord(), c.GenCoord())
		n := 1 + c.Intn(maxSegs)
		for i := 0; i < n; i++ {
			k := kinds[c.Intn(len(kinds))]
			switch k {
			case 'L':
				p.LineTo(c.GenCoord(), c.GenCoord())
			case 'Q':
				p.QuadTo(c.GenCoord(), c.GenCoord(), c.GenCoord(), c.GenCoord())
			case 'C':
				p.CubeTo(c.GenCoord(), c.GenCoord(), c.GenCoord(), c.GenCoord(), c.GenCoord(), c.GenCoord())
			case 'A':
				rx, ry := math.Abs(c.GenCoord())+0.5, math.Abs(c.GenCoord())+0.5
				p.ArcTo(rx, ry, float64(c.Intn(24))*15+c.Range(0, 1)*float64(c.Intn(2)), c.Bool(), c.Bool(), c.GenCoord(), c.GenCoord())
			case 'Z':
				if i > 0 {
					p.Close()
					i = n
				}
			}
		}
		if c.Chance(0.3) {
			p.Close()
		}
	}
	return p
}
