// Correspondence/refinement harness: runs the real tdewolff/canvas code (build tag verif) on
// generated inputs, writes the protocol lines for the Lean model driver and the outputs of the real
// code, and judges property predicates on the real code with independent oracles (used as
// refinement test and as the failing-input SEARCH when a proof obligation or correspondence breaks).
package hc

import (
	"bufio"
	"encoding/json"
	"fmt"
	"math"
	"os"
	"path/filepath"
	"runtime/debug"
	"sort"
	"strconv"
	"strings"
)

type Fail struct {
	Kind   string `json:"kind"`   // short class, part of the known-finding key
	Desc   string `json:"desc"`   // human readable
	Replay any    `json:"replay"` // concrete input
}

type Ctx struct {
	Prop     string
	Tier     string
	Seed     uint64
	N        int // size knob: number of generated cases per class
	rng      uint64
	cases    *bufio.Writer
	goOut    *bufio.Writer
	nCases   int
	Hist     map[string]int
	distinct map[string]struct{}
	Samples  []string
	Fails    []Fail
	Evals    int
	Only     string // optional sub-generator filter
}

// seedState hashes the seed into the generator state: the generator is counter based, so without
// this seeds s and s+1 would walk the same sequence shifted by one draw.
func seedState(seed uint64) uint64 {
	z := (seed + 0x243f6a8885a308d3) * 0xd1342543de82ef95
	z = (z ^ (z >> 30)) * 0xbf58476d1ce4e5b9
	z = (z ^ (z >> 27)) * 0x94d049bb133111eb
	return z ^ (z >> 31)
}

// splitmix64
func (c *Ctx) U64() uint64 {
	c.rng += 0x9e3779b97f4a7c15
	z := c.rng
	z = (z ^ (z >> 30)) * 0xbf58476d1ce4e5b9
	z = (z ^ (z >> 27)) * 0x94d049bb133111eb
	return z ^ (z >> 31)
}
func (c *Ctx) Intn(n int) int             { return int(c.U64() % uint64(n)) }
func (c *Ctx) Float() float64             { return float64(c.U64()>>11) / (1 << 53) }
func (c *Ctx) Bool() bool                 { return c.U64()&1 == 1 }
func (c *Ctx) Chance(p float64) bool      { return c.Float() < p }
func (c *Ctx) Range(a, b float64) float64 { return a + (b-a)*c.Float() }
func (c *Ctx) Norm() float64 {
	u1, u2 := c.Float(), c.Float()
	if u1 < 1e-300 {
		u1 = 1e-300
	}
	return math.Sqrt(-2*math.Log(u1)) * math.Cos(2*math.Pi*u2)
}

// Case records one correspondence case: the line for the Lean driver and the real code's output.
// mode "=" compares tokens exactly, "~" compares 16-hex-digit tokens as float64 with tolerance.
func (c *Ctx) Case(line string, mode string, goOutput string) {
	fmt.Fprintln(c.cases, line)
	fmt.Fprintln(c.goOut, mode+" "+goOutput)
	c.nCases++
}
func (c *Ctx) Count(key string)    { c.Hist[key]++ }
func (c *Ctx) Distinct(key string) { c.distinct[key] = struct{}{} }
func (c *Ctx) Sample(s string) {
	if len(c.Samples) < 8 {
		if len(s) > 600 {
			s = s[:600] + "…"
		}
		c.Samples = append(c.Samples, s)
	}
}
func (c *Ctx) Fail(kind, desc string, replay any) {
	// keep at most 20 records per kind so that a frequent (known) class cannot crowd out a new one
	if c.Hist["FAIL:"+kind] < 20 && len(c.Fails) < 4000 {
		c.Fails = append(c.Fails, Fail{kind, desc, replay})
	}
	c.Hist["FAIL:"+kind]++
}

// Try runs f and returns the panic message (empty if none).
func Try(f func()) (msg string) {
	defer func() {
		if r := recover(); r != nil {
			msg = fmt.Sprint(r)
			if os.Getenv("VERIF_STACK") != "" {
				msg += "\n" + string(debug.Stack())
			}
		}
	}()
	f()
	return ""
}

func H(f float64) string {
	if f != f {
		return "7ff8000000000001"
	}
	return fmt.Sprintf("%016x", math.Float64bits(f))
}
func Hs(fs ...float64) string {
	var sb strings.Builder
	for i, f := range fs {
		if i > 0 {
			sb.WriteByte(' ')
		}
		sb.WriteString(H(f))
	}
	return sb.String()
}
func B(b bool) string {
	if b {
		return "1"
	}
	return "0"
}

// Main is the entry point of every per-property harness binary:
//
//	harness-cxx <tier> <seed> <n> <outdir> [only]
func Main(prop string, f func(*Ctx)) {
	if len(os.Args) < 5 {
		fmt.Fprintln(os.Stderr, "usage: harness-"+prop+" <tier> <seed> <n> <outdir> [only]")
		os.Exit(2)
	}
	seed, _ := strconv.ParseUint(os.Args[2], 10, 64)
	n, _ := strconv.Atoi(os.Args[3])
	out := os.Args[4]
	c := &Ctx{Prop: prop, Tier: os.Args[1], Seed: seed, N: n, rng: seedState(seed),
		Hist: map[string]int{}, distinct: map[string]struct{}{}}
	if len(os.Args) > 5 {
		c.Only = os.Args[5]
	}
	os.MkdirAll(out, 0o755)
	cf, _ := os.Create(filepath.Join(out, "cases.txt"))
	gf, _ := os.Create(filepath.Join(out, "go.txt"))
	c.cases, c.goOut = bufio.NewWriterSize(cf, 1<<20), bufio.NewWriterSize(gf, 1<<20)
	f(c)
	c.cases.Flush()
	c.goOut.Flush()
	cf.Close()
	gf.Close()
	keys := make([]string, 0, len(c.Hist))
	for k := range c.Hist {
		keys = append(keys, k)
	}
	sort.Strings(keys)
	rep := map[string]any{
		"property": c.Prop, "tier": c.Tier, "seed": c.Seed, "cases": c.nCases, "evaluations": c.Evals + c.nCases,
		"distinct_nontrivial": len(c.distinct), "hist": c.Hist, "samples": c.Samples, "fails": c.Fails,
	}
	b, _ := json.MarshalIndent(rep, "", " ")
	os.WriteFile(filepath.Join(out, "report.json"), b, 0o644)
}
