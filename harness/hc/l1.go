package hc

// Generic correspondence for the L1 (generated) layer: every function translated by gotolean is
// called on generated arguments through canvas.VerifFuncs by reflection; the same arguments go to
// the Lean dispatcher. Bit-exact comparison.

import (
	"encoding/json"
	"fmt"
	"math"
	"os"
	"reflect"
	"strings"

	"github.com/tdewolff/canvas"
)

type l1Spec struct {
	Groups []struct {
		Name  string
		Funcs []struct {
			File, Recv, Name string
		}
	}
}

// L1Names lists the generated functions of the given translation groups (all groups if none).
func L1Names(groups []string, filter func(file, recv, name string) bool) []string {
	p := os.Getenv("VERIF_SPEC")
	if p == "" {
		p = "/verif/tools/gotolean/spec.json"
	}
	b, err := os.ReadFile(p)
	if err != nil {
		panic(err)
	}
	var s l1Spec
	if err := json.Unmarshal(b, &s); err != nil {
		panic(err)
	}
	var out []string
	for _, g := range s.Groups {
		want := len(groups) == 0
		for _, x := range groups {
			if x == g.Name {
				want = true
			}
		}
		if !want {
			continue
		}
		for _, f := range g.Funcs {
			if filter != nil && !filter(f.File, f.Recv, f.Name) {
				continue
			}
			n := f.Name
			if f.Recv != "" {
				n = f.Recv + "." + f.Name
			}
			out = append(out, n)
		}
	}
	return out
}

var niceFloats = []float64{0, 1, -1, 2, 0.5, -0.5, 3, 10, -10, 0.25, 1e-10, -1e-10, 1e-11, 100, 0.1, 1.0 / 3, 1e-8, 2e-10}

func (c *Ctx) GenFloat() float64 {
	switch c.Intn(10) {
	case 0, 1, 2:
		return niceFloats[c.Intn(len(niceFloats))]
	case 3, 4:
		return float64(c.Intn(41) - 20)
	case 5:
		return float64(c.Intn(41)-20) / 4
	case 6:
		return c.Norm() * 1e-9
	case 7:
		return c.Norm() * 1e6
	default:
		return c.Norm() * 10
	}
}

func (c *Ctx) genValue(t reflect.Type, name string) reflect.Value {
	v := reflect.New(t).Elem()
	switch t.Kind() {
	case reflect.Float64:
		v.SetFloat(c.GenFloat())
	case reflect.Bool:
		v.SetBool(c.Bool())
	case reflect.Int, reflect.Int64, reflect.Int32:
		switch t.Name() {
		case "FillRule":
			v.SetInt(int64(c.Intn(4)))
		default:
			if name == "op" {
				v.SetInt(int64(c.Intn(6)))
			} else {
				v.SetInt(int64(c.Intn(9) - 4))
			}
		}
	case reflect.Struct:
		for i := 0; i < t.NumField(); i++ {
			v.Field(i).Set(c.genValue(t.Field(i).Type, ""))
		}
	case reflect.Array:
		for i := 0; i < t.Len(); i++ {
			v.Index(i).Set(c.genValue(t.Elem(), ""))
		}
	default:
		panic("genValue: " + t.String())
	}
	return v
}

func fmtValue(v reflect.Value, sb *[]string) {
	switch v.Kind() {
	case reflect.Float64:
		*sb = append(*sb, H(v.Float()))
	case reflect.Bool:
		*sb = append(*sb, B(v.Bool()))
	case reflect.Int, reflect.Int64, reflect.Int32, reflect.Int8:
		*sb = append(*sb, fmt.Sprint(v.Int()))
	case reflect.Uint8, reflect.Uint, reflect.Uint64:
		*sb = append(*sb, fmt.Sprint(v.Uint()))
	case reflect.Struct:
		for i := 0; i < v.NumField(); i++ {
			fmtValue(v.Field(i), sb)
		}
	case reflect.Array:
		for i := 0; i < v.Len(); i++ {
			fmtValue(v.Index(i), sb)
		}
	default:
		panic("fmtValue: " + v.Type().String())
	}
}

// paramNames for hooks whose integer parameters are enums
var l1ParamNames = map[string][]string{
	"SweepPoint.InResult": {"", "", "", "", "", "", "op", ""},
}

// functions downstream of libm transcendental calls are compared with tolerance ("~")
var L1Approx = map[string]bool{"Matrix.Decompose": true}

// l1Corr emits n cases per function for the given function names.
func (c *Ctx) L1Corr(names []string, n int) {
	for _, name := range names {
		f, ok := canvas.VerifFuncs[name]
		if !ok {
			c.Fail("hook-missing", "no hook for generated function "+name, name)
			continue
		}
		fv := reflect.ValueOf(f)
		ft := fv.Type()
		for k := 0; k < n; k++ {
			args := make([]reflect.Value, ft.NumIn())
			var toks []string
			for i := range args {
				pn := ""
				if ns, ok := l1ParamNames[name]; ok {
					pn = ns[i]
				}
				args[i] = c.genValue(ft.In(i), pn)
				fmtValue(args[i], &toks)
			}
			var outs []string
			finite := true
			msg := Try(func() {
				for _, r := range fv.Call(args) {
					fmtValue(r, &outs)
				}
			})
			if msg != "" {
				// real code panicked (e.g. Matrix.Inv on a singular matrix): outside the model's precondition
				c.Count("l1-panic:" + name)
				continue
			}
			for _, a := range args {
				if a.Kind() == reflect.Float64 && (math.IsNaN(a.Float()) || math.IsInf(a.Float(), 0)) {
					finite = false
				}
			}
			_ = finite
			line := "L1 " + name + " " + strings.Join(toks, " ")
			mode := "="
			if L1Approx[name] {
				mode = "~"
			}
			c.Case(line, mode, strings.Join(outs, " "))
			c.Count("l1:" + name)
			c.Distinct(line)
			if k == 0 {
				c.Sample(line + " => " + strings.Join(outs, " "))
			}
		}
	}
}
