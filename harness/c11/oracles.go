package main

import (
	"fmt"
	"math"
	"strings"

	"github.com/tdewolff/canvas"
	pstrconv "github.com/tdewolff/parse/v2/strconv"
	"verifharness/hc"
)

// ---- geometry comparison ------------------------------------------------------------------------

func toG(segs []hc.Seg) []gseg {
	out := make([]gseg, len(segs))
	for i, s := range segs {
		out[i].Seg = s
	}
	return out
}

func pathScale(segs []hc.Seg) float64 {
	m := 1.0
	for _, s := range segs {
		for _, v := range []float64{s.P0.X, s.P0.Y, s.P1.X, s.P1.Y, s.P2.X, s.P2.Y, s.End.X, s.End.Y, s.Rx, s.Ry} {
			if a := math.Abs(v); a > m && !math.IsInf(a, 0) {
				m = a
			}
		}
	}
	return m
}

// arcCond is the amplification of a relative perturbation rel of the endpoint-arc parameters into a
// displacement of the arc relative to its size: the centre is c = f(sqrt(1-λ)), λ = radii check of
// SVG F.6.6, so d(arc)/d(param) ~ 1/sqrt(1-λ), and at λ = 1 a perturbation rel moves the arc by
// sqrt(2·rel).  Returns the tolerance factor to apply to rel.
func arcCond(s hc.Seg, rel float64) float64 {
	sin, cos := math.Sincos(s.Phi)
	dx, dy := (s.P0.X-s.End.X)/2, (s.P0.Y-s.End.Y)/2
	x1p, y1p := cos*dx+sin*dy, -sin*dx+cos*dy
	lam := x1p*x1p/(s.Rx*s.Rx) + y1p*y1p/(s.Ry*s.Ry)
	d := 1 - lam
	if d < 0 {
		d = 0
	}
	// eccentric ellipses amplify a rotation error by rx/ry
	ecc := math.Max(s.Rx, s.Ry) / math.Min(s.Rx, s.Ry)
	return (1 + 2/math.Sqrt(d+rel)) * ecc
}

// dropNull removes what ToSVG and the builder may legitimately drop: zero-length lines.
func dropNull(segs []gseg) []gseg {
	var out []gseg
	for _, s := range segs {
		if s.Kind == 'L' && math.Abs(s.P0.X-s.End.X) <= 1e-10 && math.Abs(s.P0.Y-s.End.Y) <= 1e-10 {
			continue
		}
		out = append(out, s)
	}
	return out
}

// sameGeometry compares two decoded paths segment by segment at equal parameters.  rel is the
// relative precision of the printed numbers, abs the absolute one; want/got kinds may differ only in
// quad -> cubic elevation and endpoint-arc -> centre-arc.  Lines shorter than the printed precision
// may appear on one side only (they print as zero-length and vice versa).  Returns "" or a
// description, and the worst distance/tolerance ratio seen.
func sameGeometry(want, got []gseg, rel, abs float64) (bad string, worst float64) {
	want, got = dropNull(want), dropNull(got)
	ws := make([]hc.Seg, len(want))
	for i := range want {
		ws[i] = want[i].Seg
	}
	scale := pathScale(ws)
	// a line below the print resolution at its own magnitude (abs for the decimals, rel·|coordinate|
	// for the significant digits of that coordinate: at 100 the 8-digit grid is 1e-6) cannot be told from a zero-length
	// one: rounding creates, stretches and deletes such lines on either side
	short := func(s gseg) bool {
		// per coordinate: x and y are printed independently
		below := func(a, b float64) bool {
			return math.Abs(a-b) <= 16*abs+1e-10+8*rel*math.Max(math.Abs(a), math.Abs(b))
		}
		return s.Kind == 'L' && below(s.P0.X, s.End.X) && below(s.P0.Y, s.End.Y)
	}
	carry := 0.0 // PostScript/PDF segments start at the current point: an arc's end error is inherited
	slack := 0.0 // accumulated length of skipped sub-precision lines in the current subpath
	i, j := 0, 0
	for i < len(want) || j < len(got) {
		if i < len(want) && j < len(got) {
			w, g := want[i], got[j]
			if w.Kind == 'M' {
				slack = 0
			}
			// a sub-precision line whose counterpart was printed as a zero-length line (dropped above)
			// or arose from rounding: skip it if that aligns the next segment, rather than let the
			// scale-relative tolerance accept a shifted pairing
			if short(w) && !short(g) && i+1 < len(want) {
				if m, _, _ := segSame(i+1, want[i+1], g, rel, abs, scale, carry, slack+w.P0.Dist(w.End)); m == "" {
					slack += w.P0.Dist(w.End)
					skippedSubResolution++
					i++
					continue
				}
			}
			if short(g) && !short(w) && j+1 < len(got) {
				if m, _, _ := segSame(i, w, got[j+1], rel, abs, scale, carry, slack+g.P0.Dist(g.End)); m == "" {
					slack += g.P0.Dist(g.End)
					skippedSubResolution++
					j++
					continue
				}
			}
			msg, ratio, newCarry := segSame(i, w, g, rel, abs, scale, carry, slack)
			if msg == "" {
				carry = newCarry
				if ratio > worst {
					worst = ratio
				}
				i++
				j++
				continue
			}
			if short(w) {
				slack += w.P0.Dist(w.End)
				skippedSubResolution++
				i++
				continue
			}
			if short(g) {
				slack += g.P0.Dist(g.End)
				skippedSubResolution++
				j++
				continue
			}
			return msg, ratio
		}
		// left-over lines that are shorter than the tolerance in force (sub-precision, or behind a
		// centre-form arc whose printed angles displace everything after it by `carry`) cannot be told
		// from their absence
		negligible := func(s gseg) bool { return short(s) || s.Kind == 'L' && s.P0.Dist(s.End) <= carry }
		if i < len(want) && negligible(want[i]) {
			i++
			continue
		}
		if j < len(got) && negligible(got[j]) {
			j++
			continue
		}
		return fmt.Sprintf("segment count %d, want %d", len(got), len(want)), 0
	}
	return "", worst
}

// skippedSubResolution counts lines below the print resolution that sameGeometry skipped on one side
// (reported in the histogram by printers).
var skippedSubResolution int

func segSame(i int, w, g gseg, rel, abs, scale, carry, slack float64) (bad string, ratio, newCarry float64) {
	newCarry = carry
	ok := w.Kind == g.Kind || w.Kind == 'Q' && g.Kind == 'C' || w.Kind == 'A' && g.Kind == 'E'
	if !ok {
		return fmt.Sprintf("segment %d is %c, want %c", i, g.Kind, w.Kind), 0, carry
	}
	tol := abs + 4*rel*scale + slack
	if g.Kind == 'E' {
		// centre form printed with relative precision rel: centre, radii and the two angles (in
		// degrees) each move the traced point; an angle error rel·|a| turns into r·rel·|a|·π/180
		r := math.Max(g.Rx, g.Ry)
		tol = abs + slack + 4*rel*(scale+math.Abs(g.C.X)+math.Abs(g.C.Y)+r*(2+(math.Abs(g.A0)+math.Abs(g.A1)+math.Abs(g.Rot))*math.Pi/180))
	} else if w.Kind == 'A' {
		tol = abs + slack + 4*rel*scale*arcCond(w.Seg, rel)
		if g.Kind == 'A' && (w.Large != g.Large || w.Sweep != g.Sweep) {
			return fmt.Sprintf("segment %d arc flags differ", i), 0, carry
		}
	}
	if g.Kind == 'E' {
		newCarry = tol
	} else if w.Kind == 'M' {
		newCarry = 0
	} else {
		tol += carry
	}
	if w.Kind == 'M' || w.Kind == 'Z' {
		if d := w.End.Dist(g.End); d > tol {
			return fmt.Sprintf("segment %d (%c) ends at %v, want %v", i, w.Kind, g.End, w.End), d / tol, carry
		}
		return "", 0, newCarry
	}
	for k := 0; k <= 16; k++ {
		t := float64(k) / 16
		a, b := w.At(t), g.At(t)
		d := a.Dist(b)
		if d/tol > ratio {
			ratio = d / tol
		}
		if !(d <= tol) {
			return fmt.Sprintf("segment %d (%c) at t=%.3f: %v, want %v (distance %.3g > tolerance %.3g)", i, w.Kind, t, b, a, d, tol), d / tol, carry
		}
	}
	return "", ratio, newCarry
}

func finite(d []float64) bool {
	for _, v := range d {
		if math.IsNaN(v) || math.IsInf(v, 0) {
			return false
		}
	}
	return true
}

func ulps(a, b float64) float64 {
	if a == b {
		return 0
	}
	if math.Signbit(a) != math.Signbit(b) || math.IsNaN(a) || math.IsNaN(b) {
		return math.Inf(1)
	}
	return math.Abs(float64(int64(math.Float64bits(a)) - int64(math.Float64bits(b))))
}

// ---- 2./3. printers -----------------------------------------------------------------------------

func printers(c *hc.Ctx) {
	tolStr := hc.H(1e-13)
	tolNum := hc.H(1e-7)
	for it := 0; it < c.N; it++ {
		kinds := []string{"L", "LQC", "LQCA", "A", "LHV", "LQCAHV", "QA"}[c.Intn(7)]
		wide := c.Chance(0.35)
		var p *canvas.Path
		if c.Chance(0.3) {
			wide = c.Chance(0.15)
			coord := c.GenCoord
			if wide {
				coord = func() float64 { return genCoordWide(c) }
			}
			p = genPathCoincident(c, []string{"L", "L", "LQC", "LA"}[c.Intn(4)], coord)
			c.Count("path:coincident-movetos")
		} else if wide {
			p = genPathWide(c, kinds, 6, func() float64 { return genCoordWide(c) })
		} else {
			p = genPathWide(c, kinds, 6, c.GenCoord)
		}
		if !finite(p.Data()) {
			c.Count("skip:nonfinite-path")
			continue
		}
		segs, err := hc.Decode(p.Data())
		if err != nil {
			fail(c, "builder-framing", err.Error(), map[string]any{"path": p.String()})
			continue
		}
		want := toG(segs)
		for _, s := range segs {
			c.Count("seg:" + string(s.Kind))
			if s.Kind == 'A' && s.Phi >= math.Pi/2 {
				c.Count("seg:A:rot>=90")
			}
		}
		if wide {
			c.Count("path:wide-coordinates")
		} else {
			c.Count("path:short-coordinates")
		}
		c.Distinct(p.String())
		dataHex := hc.DataHex(p.Data())
		replay := map[string]any{"path": p.String(), "data_hex": dataHex}

		// --- String: exact round trip through the real parser; tokens judged by the Lean interpreter
		str := p.String()
		c.Evals++
		o := runParse(str)
		switch {
		case o.hang || o.panic != "" || o.err != nil:
			fail(c, "string-roundtrip:rejected", fmt.Sprintf("ParseSVGPath(p.String()) fails: %v %v", o.panic, o.err), replay)
		default:
			judgeStringRoundTrip(c, p, o.p, replay)
		}
		if ts, err := tokenizeSVG(str); err != nil {
			fail(c, "string-syntax", "p.String() is not SVG path data: "+err.Error(), replay)
		} else {
			c.Case("STR "+tolStr+" "+dataHex+" |"+svgTokString(ts), "=", "ok")
			got, err := interpSVG(ts)
			if err != nil {
				fail(c, "string-syntax", "p.String() does not interpret: "+err.Error(), replay)
			} else if bad := sameStructure(want, got, 1e-15, 0); bad != "" {
				fail(c, "string-decode:subpaths", "p.String() decodes to a different subpath structure: "+bad, replay)
			} else if bad, _ := sameGeometry(want, got, 1e-15, 0); bad != "" {
				fail(c, "string-decode", "p.String() decodes to a different path: "+bad, replay)
			}
		}

		// --- ToSVG
		if !p.Empty() {
			svg := p.ToSVG()
			replay := map[string]any{"path": p.String(), "data_hex": dataHex, "tosvg": svg}
			c.Evals++
			rel := 0.5 * math.Pow(10, 1-float64(canvas.Precision)) // Precision significant digits
			ts, err := tokenizeSVG(svg)
			if err != nil {
				fail(c, "tosvg-syntax", "p.ToSVG() is not SVG path data: "+err.Error(), replay)
			} else {
				if strings.Contains(svg, "H") || strings.Contains(svg, "V") {
					c.Count("tosvg:H/V")
				}
				c.Case("SVG "+tolNum+" "+dataHex+" |"+svgTokString(ts), "=", "ok")
				got, err := interpSVG(ts)
				if err != nil {
					fail(c, "tosvg-syntax", "p.ToSVG() does not interpret: "+err.Error(), replay)
				} else if bad := sameStructure(want, got, rel, 1e-10); bad != "" {
					fail(c, "tosvg-decode:subpaths", "p.ToSVG() decodes to a different subpath structure: "+bad, replay)
				} else if bad, w := sameGeometry(want, got, rel, 1e-10); bad != "" {
					fail(c, "tosvg-decode", "p.ToSVG() decodes to different geometry: "+bad, replay)
				} else if w > 0.25 {
					c.Count("tosvg:within-4x-of-tolerance")
				}
			}
			// through the real parser (which rebuilds the path with the builder)
			o := runParse(svg)
			if o.hang || o.panic != "" || o.err != nil {
				fail(c, "tosvg-roundtrip:rejected", fmt.Sprintf("ParseSVGPath(p.ToSVG()) fails: %v %v", o.panic, o.err), replay)
			} else if segs2, err := hc.Decode(o.p.Data()); err != nil {
				fail(c, "tosvg-roundtrip:framing", err.Error(), replay)
			} else if bad := sameStructure(want, toG(segs2), rel, 1e-10); bad != "" {
				if tok := lexerGross(svg); tok != "" {
					fail(c, "tosvg-roundtrip:number-wrong-large-exponent", "ParseSVGPath(p.ToSVG()) mis-reads "+tok+": "+bad, map[string]any{"path": p.String(), "tosvg": svg, "value": tok, "class": "lexer-gross"})
				} else {
					fail(c, "tosvg-roundtrip:subpaths", fmt.Sprintf("ParseSVGPath(p.ToSVG()) = %q has a different subpath structure: %s", o.p.String(), bad), replay)
				}
			} else if bad, _ := sameGeometry(want, toG(segs2), rel, 1e-10); bad == "" {
				// same structure (up to sub-precision lines), same geometry
			} else if len(dropNull(toG(segs2))) != len(dropNull(want)) {
				// the builder merged or dropped something after rounding (e.g. lines that became
				// collinear at 8 digits): same geometry, different structure -> coarse comparison
				c.Count("tosvg-roundtrip:structure-changed")
				if bad := coarseSame(want, toG(segs2)); bad != "" {
					if tok := lexerGross(svg); tok != "" {
						fail(c, "tosvg-roundtrip:number-wrong-large-exponent", "ParseSVGPath(p.ToSVG()) mis-reads "+tok+": "+bad, map[string]any{"path": p.String(), "tosvg": svg, "value": tok, "class": "lexer-gross"})
					} else if class, why := lineMergeClass(p.Data()); class != "" {
						fail(c, "tosvg-roundtrip:structure:"+class, fmt.Sprintf("p contains %s, which ParseSVGPath(p.ToSVG()) = %q merges: %s", why, o.p.String(), bad), map[string]any{"path": p.String(), "tosvg": svg, "class": "lineto-merge"})
					} else {
						fail(c, "tosvg-roundtrip", "ParseSVGPath(p.ToSVG()) differs: "+bad, replay)
					}
				}
			} else if bad, _ := sameGeometry(want, toG(segs2), rel, 1e-10); bad != "" {
				if tok := lexerGross(svg); tok != "" {
					fail(c, "tosvg-roundtrip:number-wrong-large-exponent", "ParseSVGPath(p.ToSVG()) mis-reads "+tok+": "+bad, map[string]any{"path": p.String(), "tosvg": svg, "value": tok, "class": "lexer-gross"})
				} else {
					fail(c, "tosvg-roundtrip", "ParseSVGPath(p.ToSVG()) has different geometry: "+bad, replay)
				}
			}
		}

		// --- ToPDF (arcs replaced by cubics) and ToPS
		if !p.Empty() {
			var pdf, ps string
			var q *canvas.Path
			if msg := hc.Try(func() { pdf = p.ToPDF(); ps = p.ToPS(); q = p.ReplaceArcs() }); msg != "" {
				fail(c, "panic:ToPDF/ToPS", msg, replay)
				continue
			}
			c.Evals += 2
			absDec := 0.5 * math.Pow(10, 1-float64(canvas.Precision)) // dec: at most Precision decimals and (behind the dot) Precision significant digits
			extreme := false
			for _, sg := range segs {
				if sg.Kind == 'A' && math.Max(sg.Rx, sg.Ry) > 1e6*math.Min(sg.Rx, sg.Ry) {
					extreme = true
				}
			}
			if ts, err := tokenizeOps(pdf); err != nil {
				fail(c, "topdf-syntax", err.Error(), map[string]any{"path": p.String(), "topdf": pdf})
			} else if got, err := interpOps(ts, false); err != nil {
				fail(c, "topdf-syntax", "ToPDF does not interpret: "+err.Error(), map[string]any{"path": p.String(), "topdf": pdf})
			} else {
				c.Case("PDF "+tolNum+" "+hc.DataHex(q.Data())+" |"+opTokString(ts), "=", "ok")
				if extreme {
					// needle-shaped arcs (radii ratio above 1e6) are flattened to lines by ReplaceArcs
					c.Count("skip:topdf-needle-arc")
				} else if bad := pdfSame(want, got, absDec); bad != "" {
					if tok := carryArtefact(pdf); tok != "" {
						fail(c, "topdf-decode:dec-nines-carry", "ToPDF prints "+tok+": "+bad, map[string]any{"path": p.String(), "topdf": pdf, "class": "dec-nines-carry"})
					} else {
						fail(c, "topdf-decode", "ToPDF traces different geometry: "+bad, map[string]any{"path": p.String(), "data_hex": dataHex, "topdf": pdf})
					}
				}
			}
			if ts, err := tokenizeOps(ps); err != nil {
				fail(c, "tops-syntax", err.Error(), map[string]any{"path": p.String(), "tops": ps})
			} else if got, err := interpOps(ts, true); err != nil && carryArtefact(ps) != "" {
				fail(c, "tops-decode:dec-nines-carry", "ToPS prints "+carryArtefact(ps)+": "+err.Error(), map[string]any{"path": p.String(), "tops": ps, "class": "dec-nines-carry"})
			} else if err != nil {
				fail(c, "tops-syntax", "ToPS does not interpret: "+err.Error(), map[string]any{"path": p.String(), "data_hex": dataHex, "tops": ps})
			} else {
				c.Case("PS "+tolNum+" "+dataHex+" |"+opTokString(ts), "=", "ok")
				if bad, _ := sameGeometry(want, got, absDec, absDec); bad != "" {
					if tok := carryArtefact(ps); tok != "" {
						fail(c, "tops-decode:dec-nines-carry", "ToPS prints "+tok+": "+bad, map[string]any{"path": p.String(), "tops": ps, "class": "dec-nines-carry"})
					} else {
						fail(c, "tops-decode", "ToPS traces different geometry: "+bad, map[string]any{"path": p.String(), "data_hex": dataHex, "tops": ps})
					}
				}
			}
		}
		if skippedSubResolution > 0 {
			c.Hist["geometry:sub-resolution-lines-skipped"] += skippedSubResolution
			skippedSubResolution = 0
		}
		if it < 2 {
			c.Sample(fmt.Sprintf("path %q  ToSVG %q  ToPDF %q  ToPS %q", p.String(), p.ToSVG(), p.ToPDF(), p.ToPS()))
		}
	}
}

// judgeStringRoundTrip: ParseSVGPath(p.String()) == p.  Coordinates pass only through %g and the
// number lexer and must come back bit-exactly.  The arc rotation passes through ·180/π (String) and
// ·π/180 + angleNorm (ArcTo), which is not an exact inverse pair in float64: allowed 4 ulp, counted.
func judgeStringRoundTrip(c *hc.Ctx, p, q *canvas.Path, replay map[string]any) {
	a, b := p.Data(), q.Data()
	if tok := lexerGross(p.String()); tok != "" {
		fail(c, "string-roundtrip:number-wrong-large-exponent", fmt.Sprintf("ParseSVGPath(p.String()) = %q: strconv.ParseFloat of tdewolff/parse mis-scales %s", q.String(), tok),
			map[string]any{"path": replay["path"], "value": tok, "class": "lexer-gross"})
		return
	}
	if len(a) != len(b) {
		if class, why := lineMergeClass(p.Data()); class != "" {
			fail(c, "string-roundtrip:structure:"+class, fmt.Sprintf("p contains %s, which ParseSVGPath(p.String()) = %q merges", why, q.String()), map[string]any{"path": replay["path"], "class": "lineto-merge"})
			return
		}
		fail(c, "string-roundtrip:structure", fmt.Sprintf("ParseSVGPath(p.String()) = %q has a different command structure", q.String()), replay)
		return
	}
	segs, _ := hc.Decode(a)
	// indices of every arc's rx, ry, phi
	arcParam, isPhi := map[int]bool{}, map[int]bool{}
	i := 0
	for _, s := range segs {
		n := 4
		switch s.Kind {
		case 'Q':
			n = 6
		case 'C', 'A':
			n = 8
		}
		if s.Kind == 'A' {
			arcParam[i+1], arcParam[i+2], arcParam[i+3], isPhi[i+3] = true, true, true, true
		}
		i += n
	}
	for k := range a {
		u := ulps(a[k], b[k])
		if u == 0 {
			continue
		}
		if !isPhi[k] {
			printed := fmt.Sprintf("%g", a[k])
			if lexed, _ := pstrconv.ParseFloat([]byte(printed)); math.Abs(lexed-a[k]) > 1e-9*math.Abs(a[k]) {
				fail(c, "string-roundtrip:number-wrong-large-exponent", fmt.Sprintf("value %s comes back as %v: strconv.ParseFloat of tdewolff/parse mis-scales it", printed, b[k]),
					map[string]any{"path": replay["path"], "value": printed, "back": fmt.Sprintf("%g", b[k]), "class": "lexer-gross"})
				return
			}
		}
		if arcParam[k] {
			// rx, ry, phi pass through ArcTo's normalisation again (·180/π·π/180, angleNorm, radii
			// correction λ = 1 ± ulp): not an exact identity in float64; allowed 16 ulp, counted
			if u > 16 && math.Abs(a[k]-b[k]) > 1e-15*(1+math.Abs(a[k])) {
				fail(c, "string-roundtrip:arc-parameter", fmt.Sprintf("arc parameter %v comes back as %v", a[k], b[k]), replay)
				return
			}
			c.Count("string-roundtrip:arc-parameter-within-16ulp")
			continue
		}
		// a coordinate passes only through %g and the number lexer: must be bit-exact
		printed := fmt.Sprintf("%g", a[k])
		lexed, _ := pstrconv.ParseFloat([]byte(printed))
		rp := map[string]any{"path": replay["path"], "value": printed, "back": fmt.Sprintf("%g", b[k])}
		switch {
		case lexed == b[k] && math.Abs(lexed-a[k]) <= 1e-14*math.Abs(a[k]) && lexClass(printed) == "inexact":
			rp["class"] = "lexer-ulp"
			fail(c, "string-roundtrip:number-off-by-ulp", fmt.Sprintf("value %s comes back as %v (%v ulp): strconv.ParseFloat of tdewolff/parse is not correctly rounded", printed, b[k], u), rp)
		case lexed == b[k] && lexClass(printed) == "large-exponent":
			rp["class"] = "lexer-gross"
			fail(c, "string-roundtrip:number-wrong-large-exponent", fmt.Sprintf("value %s comes back as %v: strconv.ParseFloat of tdewolff/parse mis-scales it", printed, b[k]), rp)
		default:
			fail(c, "string-roundtrip:value", fmt.Sprintf("value %s comes back as %v", printed, b[k]), replay)
		}
		return
	}
	c.Count("string-roundtrip:exact")
}

// coarseSame: every sample of one path lies near the other (used only when the builder changed the
// command structure, so parameters do not correspond).
func coarseSame(a, b []gseg) string {
	poly := func(gs []gseg) []hc.P2 {
		var pl []hc.P2
		for _, g := range gs {
			if g.Kind == 'M' {
				continue
			}
			for k := 0; k <= 64; k++ {
				pl = append(pl, g.At(float64(k)/64))
			}
		}
		return pl
	}
	pa, pb := poly(a), poly(b)
	if len(pa) == 0 || len(pb) == 0 {
		if len(pa) != len(pb) {
			return "one path is empty"
		}
		return ""
	}
	ws := make([]hc.Seg, len(a))
	for i := range a {
		ws[i] = a[i].Seg
	}
	tol := 2e-2 * pathScale(ws)
	for _, pt := range pa {
		if d := hc.DistPointPolyline(pt, pb); d > tol {
			return fmt.Sprintf("point %v of the original is %g away from the round-tripped path", pt, d)
		}
	}
	for _, pt := range pb {
		if d := hc.DistPointPolyline(pt, pa); d > tol {
			return fmt.Sprintf("point %v of the round-tripped path is %g away from the original", pt, d)
		}
	}
	return ""
}

// pdfSame: without arcs, ToPDF's operators must trace the path segment by segment to the printed
// precision.  With arcs, ToPDF first replaces every arc by cubic Béziers (ellipseToCubicBeziers,
// at most 90° per piece, Maisonobe's construction, error ≲ 1e-2·r for the eccentricities generated
// here) and may append a sliver line to the exact end point, so the two are compared as curves:
// every sample of one lies within 1.2e-2·r (+ printed precision) of the other, in both directions —
// a wrong arc direction, flag or centre moves the curve by O(r).
func pdfSame(want, got []gseg, absDec float64) string {
	maxR := 0.0
	for _, w := range want {
		if w.Kind == 'A' {
			maxR = math.Max(maxR, math.Max(w.Rx, w.Ry))
		}
	}
	if maxR == 0 {
		bad, _ := sameGeometry(want, got, absDec, absDec)
		return bad
	}
	ws := make([]hc.Seg, len(want))
	for i := range want {
		ws[i] = want[i].Seg
	}
	for _, g := range got {
		if g.Kind != 'M' && g.Kind != 'L' && g.Kind != 'C' && g.Kind != 'Z' {
			return fmt.Sprintf("unexpected segment kind %c", g.Kind)
		}
	}
	tol := 1.2e-2*maxR + 8*absDec*(1+pathScale(ws))
	poly := func(gs []gseg) []hc.P2 {
		var pl []hc.P2
		for _, g := range gs {
			if g.Kind == 'M' {
				continue
			}
			for k := 0; k <= 96; k++ {
				pl = append(pl, g.At(float64(k)/96))
			}
		}
		return pl
	}
	pw, pg := poly(want), poly(got)
	for _, pt := range pw {
		if d := hc.DistPointPolyline(pt, pg); !(d <= tol) {
			return fmt.Sprintf("point %v of the path is %g from what the operators trace (tolerance %g)", pt, d, tol)
		}
	}
	for _, pt := range pg {
		if d := hc.DistPointPolyline(pt, pw); !(d <= tol) {
			return fmt.Sprintf("point %v traced by the operators is %g from the path (tolerance %g)", pt, d, tol)
		}
	}
	// subpath structure: same number of moves and closes
	cnt := func(gs []gseg, k byte) int {
		n := 0
		for _, g := range gs {
			if g.Kind == k {
				n++
			}
		}
		return n
	}
	if cnt(want, 'M') != cnt(got, 'M') || cnt(want, 'Z') != cnt(got, 'Z') {
		return "different number of subpaths or closes"
	}
	return ""
}

// lexerGross returns the first numeral of s that strconv.ParseFloat of tdewolff/parse reads with a
// relative error above 1e-9 (compared with the Go standard library), or "".
func lexerGross(s string) string {
	for i := 0; i < len(s); {
		if v, j, ok := scanNumber(s, i); ok {
			lv, _ := pstrconv.ParseFloat([]byte(s[i:j]))
			if math.Abs(lv-v) > 1e-9*math.Abs(v) && lexClass(s[i:j]) == "large-exponent" {
				return s[i:j]
			}
			i = j
		} else {
			i++
		}
	}
	return ""
}

// lineMergeClass reports what LineTo's merge rule mishandles in builder-made data: a zero-length
// LineTo or two consecutive LineTos in the same direction ("noncanonical-lines": LineTo promises to
// drop / merge them, a reversing segment overwrote its predecessor when the path was built), or two
// consecutive antiparallel LineTos ("hairpin-lines": re-adding them through LineTo, as ParseSVGPath
// does, treats the reversal as an extension and drops the turning point).
func lineMergeClass(d []float64) (class, why string) {
	segs, err := hc.Decode(d)
	if err != nil {
		return "", ""
	}
	for i, s := range segs {
		if s.Kind != 'L' {
			continue
		}
		if math.Abs(s.P0.X-s.End.X) <= 1e-10 && math.Abs(s.P0.Y-s.End.Y) <= 1e-10 {
			return "noncanonical-lines", fmt.Sprintf("a zero-length LineTo (segment %d)", i)
		}
		if i > 0 && segs[i-1].Kind == 'L' {
			da, db := segs[i-1].End.Sub(segs[i-1].P0), s.End.Sub(s.P0)
			if math.Abs(da.Cross(db)/(da.Len()*db.Len())) <= 1e-10 {
				if da.Dot(db) > 0 {
					return "noncanonical-lines", fmt.Sprintf("two LineTos in the same direction (segments %d, %d)", i-1, i)
				}
				class, why = "hairpin-lines", fmt.Sprintf("two antiparallel LineTos (segments %d, %d)", i-1, i)
			}
		}
	}
	return class, why
}

// subpath is what fill rules, caps/joins, markers and Split see: where a subpath starts, whether it
// is closed, and how far it extends.
type subpath struct {
	start  hc.P2
	closed bool
	length float64 // sum of chord lengths of its segments (coarse; only to recognise empty ones)
}

// subpathsOf splits decoded segments into subpaths.  A subpath starts at a moveto, or — SVG 1.1
// §8.3.3 — at the first drawing command after a closepath, from the closed subpath's start point.
// Subpaths without drawing segments (a bare moveto) are not listed.
func subpathsOf(gs []gseg) []subpath {
	var out []subpath
	open := false
	afterClose := false
	for _, g := range gs {
		switch g.Kind {
		case 'M':
			open, afterClose = false, false
			out = append(out, subpath{start: g.End})
		case 'Z':
			if len(out) > 0 {
				out[len(out)-1].closed = true
				out[len(out)-1].length += g.P0.Dist(g.End)
			}
			open, afterClose = false, true
		default:
			if afterClose || len(out) == 0 {
				out = append(out, subpath{start: g.P0})
				afterClose = false
			}
			open = true
			out[len(out)-1].length += g.P0.Dist(g.End) + g.P0.Dist(g.At(0.5))
		}
	}
	_ = open
	var kept []subpath
	for _, s := range out {
		if s.length > 0 {
			kept = append(kept, s)
		}
	}
	return kept
}

// sameStructure: same number of (non-empty) subpaths, each open/closed alike and starting at the
// same point (to the printed precision).  Subpaths shorter than the precision may be missing.
func sameStructure(want, got []gseg, rel, abs float64) string {
	ws := make([]hc.Seg, len(want))
	for i := range want {
		ws[i] = want[i].Seg
	}
	tol := abs + 4*rel*pathScale(ws)
	drop := func(ss []subpath) []subpath {
		var out []subpath
		for _, s := range ss {
			if s.length > 16*tol+1e-10 {
				out = append(out, s)
			}
		}
		return out
	}
	a, b := drop(subpathsOf(want)), drop(subpathsOf(got))
	if len(a) != len(b) {
		return fmt.Sprintf("%d subpaths, want %d", len(b), len(a))
	}
	for i := range a {
		if a[i].closed != b[i].closed {
			return fmt.Sprintf("subpath %d closed=%v, want %v", i, b[i].closed, a[i].closed)
		}
		if d := a[i].start.Dist(b[i].start); !(d <= 32*tol+1e-10) {
			return fmt.Sprintf("subpath %d starts at %v, want %v", i, b[i].start, a[i].start)
		}
	}
	return ""
}

// carryArtefact returns the first operand of the form 1, zeros, trailing dot ("10.", "-1000."): the
// signature of dec's nines-carry defect repaired by d74a0aa (dec prints no trailing dot otherwise);
// kept so that a regression is reported under its own kind.
func carryArtefact(ops string) string {
	for _, w := range strings.Fields(ops) {
		t := strings.TrimPrefix(w, "-")
		if len(t) >= 3 && t[0] == '1' && t[len(t)-1] == '.' && strings.Trim(t[1:len(t)-1], "0") == "" {
			return w
		}
	}
	return ""
}
