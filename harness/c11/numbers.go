package main

// Number printers num / dec (util.go) observed through the hook VerifNum / VerifDec.  The verdict on
// each printed numeral is taken by the Lean spec in exact rational arithmetic (NUM / DEC lines: is a
// numeral, is read back completely and to the same decimal by the lexer model, lies within half a unit
// of the Precision-th significant digit / decimal).  The Go side generates, observes, and keeps a
// coarse float check only to attach a concrete input to a failure.

import (
	"fmt"
	"math"
	"strconv"

	"github.com/tdewolff/canvas"
	"verifharness/hc"
)

// ninesCarry: the class minify.Decimal mis-prints (dec avoids it since d74a0aa by rounding first; the
// predicate names the regression class).  dec formats with %.{prec}f and then cuts the
// decimal STRING to prec significant digits, rounding half up on that string: when the integer part
// has 2..prec digits, the first prec significant digits are all nines and the next digit is >= 5, the
// carry creates a new leading digit (99.9999995 -> 100), which Decimal writes one place short ("10.").
func ninesCarry(x float64, prec int) bool {
	a := math.Abs(x)
	if math.IsInf(a, 0) || math.IsNaN(a) {
		return false
	}
	s := strconv.FormatFloat(a, 'f', prec, 64)
	dot := 0
	for dot < len(s) && s[dot] != '.' {
		dot++
	}
	if dot < 2 || dot > prec || s[0] == '0' {
		return false
	}
	digits := s[:dot] + s[dot+1:]
	if len(digits) <= prec {
		return false
	}
	for i := 0; i < prec; i++ {
		if digits[i] != '9' {
			return false
		}
	}
	return digits[prec] >= '5'
}

func genNumber(c *hc.Ctx) (float64, string) {
	switch c.Intn(14) {
	case 0:
		return c.GenCoord(), "coord"
	case 1:
		return genCoordWide(c), "wide"
	case 2: // just below / above a power of ten, around the 8th and 9th digit
		k := c.Intn(13) - 3
		d := []float64{5e-9, 4e-9, 6e-9, 5e-8, 4.9e-8, 5.1e-8, 1e-9, 1e-12, 0}[c.Intn(9)]
		s := 1.0
		if c.Bool() {
			s = -1
		}
		if c.Bool() {
			return s * math.Pow(10, float64(k)) * (1 - d), "below-power-of-ten"
		}
		return s * math.Pow(10, float64(k)) * (1 + d), "above-power-of-ten"
	case 3: // ties at the 8th significant digit
		m := float64(10000000+c.Intn(89999999)) + 0.5
		return m * math.Pow(10, float64(c.Intn(12)-9)), "tie-8th-digit"
	case 4: // int32 boundary (num/dec append ".0" beyond it)
		return []float64{math.MaxInt32, math.MaxInt32 + 1, math.MinInt32, math.MinInt32 - 1, math.MaxInt32 - 0.5, 4294967296}[c.Intn(6)], "int32-boundary"
	case 5:
		return math.Float64frombits(c.U64()%0x7ff0000000000000) * float64(1-2*c.Intn(2)), "random-bits"
	case 6:
		return []float64{0, math.Copysign(0, -1), 5e-324, 2.2250738585072014e-308, math.MaxFloat64, 1e-9, 1e-8, 0.5e-8, 0.49e-8, 1e-7}[c.Intn(10)], "special"
	case 7: // integers and integers with trailing zeros (exponent forms of num)
		return float64(c.Intn(1000)) * math.Pow(10, float64(c.Intn(12))), "trailing-zeros"
	case 8: // small decimals (leading-zero / exponent forms)
		return float64(1+c.Intn(99999999)) * math.Pow(10, -float64(8+c.Intn(12))), "small-decimal"
	case 9: // all nines
		n := 2 + c.Intn(12)
		v, _ := strconv.ParseFloat(fmt.Sprintf("%s.%s", "99999999999"[:1+c.Intn(9)], "999999999999999"[:n]), 64)
		return v, "nines"
	default:
		return math.Round(c.Norm()*1e4) / float64([]int{1, 10, 100, 1000, 3, 7}[c.Intn(6)]), "rounded"
	}
}

func numbers(c *hc.Ctx) {
	prec := canvas.Precision
	for it := 0; it < 3*c.N; it++ {
		x, class := genNumber(c)
		if math.IsNaN(x) || math.IsInf(x, 0) {
			continue
		}
		c.Count("number:" + class)
		var sn, sd string
		if msg := hc.Try(func() { sn, sd = canvas.VerifNum(x), canvas.VerifDec(x) }); msg != "" {
			fail(c, "panic:num/dec", msg, map[string]any{"x": hc.H(x)})
			continue
		}
		c.Evals += 2
		c.Distinct("n" + hc.H(x))
		if len(sn) <= 400 {
			c.Case(fmt.Sprintf("NUM %d %s %s", prec, hc.H(x), hexOf(sn)), "=", "ok")
		}
		if ninesCarry(x, prec) {
			c.Count("number:dec-nines-carry-class") // repaired by d74a0aa; kept as a regression class
		}
		if len(sd) <= 400 {
			c.Case(fmt.Sprintf("DEC %d %s %s", prec, hc.H(x), hexOf(sd)), "=", "ok")
		}
		// coarse float check (for the replay record only)
		rel := 0.5 * math.Pow(10, 1-float64(prec))
		if v, err := strconv.ParseFloat(sn, 64); err != nil || math.Abs(v-x) > 1.0001*rel*math.Abs(x)+5e-324 {
			fail(c, "num-imprecise", fmt.Sprintf("num(%v) prints %q", x, sn), map[string]any{"x": fmt.Sprint(x), "x_hex": hc.H(x), "printed": sn})
		}
		if v, err := strconv.ParseFloat(sd, 64); err != nil || math.Abs(v-x) > 1.0001*(0.5*math.Pow(10, -float64(prec))+rel*math.Abs(x)) {
			kind := "dec-imprecise"
			rp := map[string]any{"x": fmt.Sprint(x), "x_hex": hc.H(x), "printed": sd}
			if ninesCarry(x, prec) {
				kind, rp["class"] = "dec-imprecise:nines-carry", "dec-nines-carry"
			}
			fail(c, kind, fmt.Sprintf("dec(%v) prints %q", x, sd), rp)
		}
		switch {
		case len(sn) > 0 && (sn[0] == '.' || len(sn) > 1 && sn[:2] == "-."):
			c.Count("num-form:leading-dot")
		}
		for i := 0; i < len(sn); i++ {
			if sn[i] == 'e' {
				c.Count("num-form:exponent")
				break
			}
		}
		if it < 3 {
			c.Sample(fmt.Sprintf("num(%v)=%q dec(%v)=%q", x, sn, x, sd))
		}
	}
}
