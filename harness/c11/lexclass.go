package main

// Cause predicates for the three defects of strconv.ParseFloat (github.com/tdewolff/parse) that reach
// ParseSVGPath, decided from the numeral alone by re-tracing the lexer's bookkeeping (uint64 mantissa,
// truncation index, dot index, decimal exponent).  Everything outside these predicates must be read
// exactly (correctly rounded), so a different lexer defect is still a violation.

import (
	"math"
	"strconv"
)

type lexInfo struct {
	ok             bool
	n              uint64 // mantissa as accumulated by the lexer
	wrapped        bool   // n*10+d exceeded uint64 and wrapped around (n == MaxUint64/10, d > 5)
	trunc          bool   // digits were dropped (mantissa would exceed uint64)
	truncBeforeDot bool   // … already in the integer part, and a dot follows
	e10            int64  // decimal exponent applied to n: expExp - mantExp
	expExp         int64  // the written exponent
}

func lexTrace(s string) lexInfo {
	i := 0
	if i < len(s) && (s[i] == '+' || s[i] == '-') {
		i++
	}
	start := i
	dot, trunk := -1, -1
	var n uint64
	wrapped := false
	for ; i < len(s); i++ {
		c := s[i]
		if c >= '0' && c <= '9' {
			if trunk == -1 {
				if n > math.MaxUint64/10 {
					trunk = i
				} else {
					if n == math.MaxUint64/10 && c > '5' {
						wrapped = true
					}
					n = n*10 + uint64(c-'0')
				}
			}
		} else if dot == -1 && c == '.' {
			dot = i
		} else {
			break
		}
	}
	if i == start || i == start+1 && dot == start {
		return lexInfo{}
	}
	info := lexInfo{ok: true, n: n, wrapped: wrapped, trunc: trunk != -1, truncBeforeDot: trunk != -1 && dot != -1 && trunk < dot}
	var mantExp int64
	if dot != -1 {
		t := trunk
		if t == -1 {
			t = i
		}
		// the lexer computes trunk-dot-1 here, which is one too small when trunk < dot: that is the
		// third defect; the class predicate only needs to know that this situation arose
		mantExp = int64(t - dot - 1)
	} else if trunk != -1 {
		mantExp = int64(trunk - i)
	}
	var expExp int64
	if i < len(s) && (s[i] == 'e' || s[i] == 'E') {
		j := i + 1
		if j < len(s) && (s[j] == '+' || s[j] == '-') {
			j++
		}
		k := j
		for k < len(s) && s[k] >= '0' && s[k] <= '9' {
			k++
		}
		if k > j {
			if v, err := strconv.ParseInt(s[i+1:k], 10, 64); err == nil {
				expExp = v
			} else if s[i+1] == '-' {
				expExp = math.MinInt64 / 2
			} else {
				expExp = math.MaxInt64 / 2
			}
		}
	}
	info.e10 = expExp - mantExp
	info.expExp = expExp
	return info
}

// lexClass names what the numeral may legitimately suffer from the recorded defects:
//
//	"exact"                  none: one correctly rounded IEEE operation on exact operands
//	"large-exponent"         22 < e10 <= 37 and n·10^(e10-22) > 1e15: scaled twice (gross)
//	"uint64-wraparound"      the mantissa lands in [2^64, 2^64+3]: n*10+d wraps to 0..3 (gross)
//	"overflow-before-dot"    mantissa truncated inside the integer part and a dot follows: ×10 (gross)
//	"pow10-saturation"       slow path with a written exponent outside [-308, 308]: math.Pow10 gives 0, a subnormal or +Inf
//	                         although mantissa·10^exp is representable (or 0·Inf = NaN)
//	"inexact"                more than 53 mantissa bits or |e10| > 22: two roundings (a few ulp)
func lexClass(s string) string {
	t := lexTrace(s)
	if !t.ok {
		return "exact"
	}
	f := float64(t.n)
	switch {
	case t.wrapped:
		return "uint64-wraparound"
	case t.truncBeforeDot:
		return "overflow-before-dot"
	case 22 < t.e10 && t.e10 <= 37 && f*math.Pow10(int(t.e10-22)) > 1e15:
		return "large-exponent"
	case t.e10 == 0 && !t.trunc:
		return "exact" // uint64 -> float64 is one correctly rounded conversion
	case (t.expExp > 308 || t.expExp < -308) && !(t.n <= 1<<53 && -22 <= t.e10 && t.e10 <= 37 && !t.trunc):
		return "pow10-saturation"
	case t.trunc:
		return "inexact"
	case t.e10 == 0:
		return "exact" // uint64 -> float64 is one correctly rounded conversion
	case t.n <= 1<<53 && -22 <= t.e10 && t.e10 < 0:
		return "exact" // exact / exact power of ten
	case f <= 1e15 && 0 < t.e10 && t.e10 <= 22:
		return "exact" // the lexer's fast path requires |f| <= 1e15
	case 22 < t.e10 && t.e10 <= 37:
		return "exact" // f·10^(e-22) <= 1e15 is exact, then one multiplication
	}
	return "inexact"
}

func ulpDist(a, b float64) float64 {
	if a == b {
		return 0
	}
	if math.IsNaN(a) || math.IsNaN(b) || math.IsInf(a, 0) || math.IsInf(b, 0) || math.Signbit(a) != math.Signbit(b) {
		return math.Inf(1)
	}
	return math.Abs(float64(int64(math.Float64bits(a)) - int64(math.Float64bits(b))))
}
