package main

// Independent interpreters of the three textual path syntaxes, written from the SVG 1.1 path grammar
// (§8.3), PDF 32000-1 §8.5.2 and the PLRM / renderers/ps prolog.  Numbers are converted with the Go
// standard library (correctly rounded), never with the library's own lexer.  Nothing here calls
// ParseSVGPath or the path builder.

import (
	"fmt"
	"math"
	"strconv"
	"strings"

	"verifharness/hc"
)

type svgTok struct {
	kind byte // 'c' command, 'n' number, 'f' flag
	c    byte
	v    float64
}

func isWsp(b byte) bool { return b == ' ' || b == '\t' || b == '\n' || b == '\r' || b == '\f' }

// scanNumber: SVG number = sign? (digits ('.' digits?)? | '.' digits) ([eE] sign? digits)?
func scanNumber(s string, i int) (float64, int, bool) {
	j := i
	if j < len(s) && (s[j] == '+' || s[j] == '-') {
		j++
	}
	d := 0
	for j < len(s) && s[j] >= '0' && s[j] <= '9' {
		j++
		d++
	}
	if j < len(s) && s[j] == '.' {
		j++
		for j < len(s) && s[j] >= '0' && s[j] <= '9' {
			j++
			d++
		}
	}
	if d == 0 {
		return 0, i, false
	}
	if j < len(s) && (s[j] == 'e' || s[j] == 'E') {
		k := j + 1
		if k < len(s) && (s[k] == '+' || s[k] == '-') {
			k++
		}
		e := 0
		for k < len(s) && s[k] >= '0' && s[k] <= '9' {
			k++
			e++
		}
		if e > 0 {
			j = k
		}
	}
	v, err := strconv.ParseFloat(s[i:j], 64)
	if err != nil && !math.IsInf(v, 0) && v != 0 {
		return 0, i, false
	}
	return v, j, true
}

var svgArity = map[byte]int{'M': 2, 'Z': 0, 'L': 2, 'H': 1, 'V': 1, 'C': 6, 'S': 4, 'Q': 4, 'T': 2, 'A': 7}

// tokenizeSVG splits path data into command letters, numbers and arc flags (flags are single
// characters, position-dependent, and may be glued to the following number).
func tokenizeSVG(s string) ([]svgTok, error) {
	var out []svgTok
	i := 0
	var cur byte
	argi := 0
	skip := func() {
		for i < len(s) && (isWsp(s[i]) || s[i] == ',') {
			i++
		}
	}
	for {
		skip()
		if i >= len(s) {
			return out, nil
		}
		b := s[i]
		up := b &^ 0x20
		if _, ok := svgArity[up]; ok && (b >= 'A' && b <= 'Z' || b >= 'a' && b <= 'z') {
			out = append(out, svgTok{kind: 'c', c: b})
			cur, argi = up, 0
			i++
			continue
		}
		if cur == 0 || svgArity[cur] == 0 {
			return nil, fmt.Errorf("unexpected %q at %d", b, i)
		}
		if cur == 'A' && (argi%7 == 3 || argi%7 == 4) {
			if b != '0' && b != '1' {
				return nil, fmt.Errorf("bad flag %q at %d", b, i)
			}
			out = append(out, svgTok{kind: 'f', v: float64(b - '0')})
			i++
			argi++
			continue
		}
		v, j, ok := scanNumber(s, i)
		if !ok {
			return nil, fmt.Errorf("bad number at %d", i)
		}
		out = append(out, svgTok{kind: 'n', v: v})
		i = j
		argi++
	}
}

func svgTokString(ts []svgTok) string {
	var sb strings.Builder
	for _, t := range ts {
		switch t.kind {
		case 'c':
			sb.WriteString(" c" + string(t.c))
		case 'f':
			sb.WriteString(fmt.Sprintf(" f%d", int(t.v)))
		default:
			sb.WriteString(" n" + hc.H(t.v))
		}
	}
	return sb.String()
}

// gseg is a decoded piece of geometry: hc.Seg, or an arc in centre form (Kind 'E').
type gseg struct {
	hc.Seg
	C      hc.P2
	A0, A1 float64 // degrees
	Rot    float64 // degrees
}

func (g gseg) At(t float64) hc.P2 {
	if g.Kind != 'E' {
		return g.Seg.At(t)
	}
	th := (g.A0 + (g.A1-g.A0)*t) * math.Pi / 180
	sin, cos := math.Sincos(g.Rot * math.Pi / 180)
	ex, ey := g.Rx*math.Cos(th), g.Ry*math.Sin(th)
	return hc.P2{X: g.C.X + cos*ex - sin*ey, Y: g.C.Y + sin*ex + cos*ey}
}

// interpSVG executes the tokens per SVG 1.1 §8.3 (absolute/relative, H/V, S/T reflection, implicit
// repetition, M followed by implicit L).
func interpSVG(ts []svgTok) ([]gseg, error) {
	var out []gseg
	var cur, start, ctl, qctl hc.P2
	var hasCtl, hasQ bool
	afterClose := false
	i := 0
	var cmd byte
	first := true
	for i < len(ts) {
		if ts[i].kind == 'c' {
			cmd = ts[i].c
			i++
			if first && cmd != 'M' && cmd != 'm' {
				return nil, fmt.Errorf("path data must start with moveto")
			}
		} else if cmd == 0 || cmd == 'Z' || cmd == 'z' {
			return nil, fmt.Errorf("number without command")
		}
		first = false
		up := cmd &^ 0x20
		n := svgArity[up]
		if i+n > len(ts) {
			return nil, fmt.Errorf("missing arguments for %c", cmd)
		}
		a := make([]float64, n)
		for k := 0; k < n; k++ {
			t := ts[i+k]
			wantFlag := up == 'A' && (k == 3 || k == 4)
			if t.kind == 'c' || wantFlag != (t.kind == 'f') {
				return nil, fmt.Errorf("bad argument %d for %c", k, cmd)
			}
			a[k] = t.v
		}
		i += n
		rel := cmd >= 'a'
		ab := func(x, y float64) hc.P2 {
			if rel {
				return hc.P2{X: cur.X + x, Y: cur.Y + y}
			}
			return hc.P2{X: x, Y: y}
		}
		// SVG 1.1 §8.3.3: a drawing command right after a closepath starts a new subpath at the
		// closed subpath's start point — an implicit moveto
		if afterClose && up != 'M' && up != 'Z' {
			m := gseg{}
			m.Kind, m.P0, m.End = 'M', cur, start
			out = append(out, m)
			cur = start
		}
		afterClose = up == 'Z'
		s := gseg{}
		s.P0 = cur
		nc, nq := false, false
		switch up {
		case 'M':
			p := ab(a[0], a[1])
			s.Kind, s.End = 'M', p
			start = p
			if rel {
				cmd = 'l'
			} else {
				cmd = 'L'
			}
		case 'Z':
			s.Kind, s.End = 'Z', start
		case 'L':
			s.Kind, s.End = 'L', ab(a[0], a[1])
		case 'H':
			s.Kind, s.End = 'L', hc.P2{X: ab(a[0], 0).X, Y: cur.Y}
		case 'V':
			s.Kind, s.End = 'L', hc.P2{X: cur.X, Y: ab(0, a[0]).Y}
		case 'C':
			s.Kind, s.P1, s.P2, s.End = 'C', ab(a[0], a[1]), ab(a[2], a[3]), ab(a[4], a[5])
			ctl, nc = s.P2, true
		case 'S':
			c1 := cur
			if hasCtl {
				c1 = hc.P2{X: 2*cur.X - ctl.X, Y: 2*cur.Y - ctl.Y}
			}
			s.Kind, s.P1, s.P2, s.End = 'C', c1, ab(a[0], a[1]), ab(a[2], a[3])
			ctl, nc = s.P2, true
		case 'Q':
			s.Kind, s.P1, s.End = 'Q', ab(a[0], a[1]), ab(a[2], a[3])
			qctl, nq = s.P1, true
		case 'T':
			c1 := cur
			if hasQ {
				c1 = hc.P2{X: 2*cur.X - qctl.X, Y: 2*cur.Y - qctl.Y}
			}
			s.Kind, s.P1, s.End = 'Q', c1, ab(a[0], a[1])
			qctl, nq = s.P1, true
		case 'A':
			s.Kind, s.Rx, s.Ry, s.Phi, s.Large, s.Sweep, s.End = 'A', a[0], a[1], a[2]*math.Pi/180, a[3] == 1, a[4] == 1, ab(a[5], a[6])
		}
		hasCtl, hasQ = nc, nq
		cur = s.End
		out = append(out, s)
	}
	return out, nil
}

type opTok struct {
	num bool
	v   float64
	op  string
}

func tokenizeOps(s string) ([]opTok, error) {
	var out []opTok
	for _, w := range strings.Fields(s) {
		if c := w[0]; c >= '0' && c <= '9' || c == '-' || c == '.' || c == '+' {
			v, err := strconv.ParseFloat(w, 64)
			if err != nil {
				return nil, fmt.Errorf("bad number %q", w)
			}
			out = append(out, opTok{num: true, v: v})
		} else {
			out = append(out, opTok{op: w})
		}
	}
	return out, nil
}

func opTokString(ts []opTok) string {
	var sb strings.Builder
	for _, t := range ts {
		if t.num {
			sb.WriteString(" n" + hc.H(t.v))
		} else {
			sb.WriteString(" o" + t.op)
		}
	}
	return sb.String()
}

// interpOps executes PDF path construction operators (m l c h re) or the PostScript operators ToPS
// emits (moveto lineto curveto closepath, and the prolog procedures ellipse / ellipsen).
func interpOps(ts []opTok, ps bool) ([]gseg, error) {
	var out []gseg
	var cur, start hc.P2
	var st []float64
	scale := 0.0 // largest operand: the absolute size of the drawing
	for _, t := range ts {
		if t.num && math.Abs(t.v) > scale && !math.IsInf(t.v, 0) {
			scale = math.Abs(t.v)
		}
	}
	pop := func(n int) ([]float64, error) {
		if len(st) != n {
			return nil, fmt.Errorf("operand count %d, want %d", len(st), n)
		}
		a := st
		st = nil
		return a, nil
	}
	for _, t := range ts {
		if t.num {
			st = append(st, t.v)
			continue
		}
		name := t.op
		if ps {
			switch name {
			case "moveto":
				name = "m"
			case "lineto":
				name = "l"
			case "curveto":
				name = "c"
			case "closepath":
				name = "h"
			case "ellipse", "ellipsen":
			default:
				return nil, fmt.Errorf("unknown PostScript operator %q", name)
			}
		}
		s := gseg{}
		s.P0 = cur
		switch name {
		case "m":
			a, err := pop(2)
			if err != nil {
				return nil, err
			}
			s.Kind, s.End = 'M', hc.P2{X: a[0], Y: a[1]}
			start = s.End
		case "l":
			a, err := pop(2)
			if err != nil {
				return nil, err
			}
			s.Kind, s.End = 'L', hc.P2{X: a[0], Y: a[1]}
		case "c":
			a, err := pop(6)
			if err != nil {
				return nil, err
			}
			s.Kind, s.P1, s.P2, s.End = 'C', hc.P2{X: a[0], Y: a[1]}, hc.P2{X: a[2], Y: a[3]}, hc.P2{X: a[4], Y: a[5]}
		case "h":
			if _, err := pop(0); err != nil {
				return nil, err
			}
			s.Kind, s.End = 'Z', start
		case "ellipse", "ellipsen":
			// x y rx ry a0 a1 rot: translate, rotate, scale, then arc (ccw) / arcn (cw) of the unit
			// circle from a0 to a1; arc adds 360 to a1 while a1 < a0, arcn subtracts while a1 > a0
			a, err := pop(7)
			if err != nil {
				return nil, err
			}
			s.Kind = 'E'
			s.C, s.Rx, s.Ry, s.A0, s.A1, s.Rot = hc.P2{X: a[0], Y: a[1]}, a[2], a[3], a[4], a[5], a[6]
			if name == "ellipse" {
				for s.A1 < s.A0 {
					s.A1 += 360
				}
			} else {
				for s.A1 > s.A0 {
					s.A1 -= 360
				}
			}
			// PostScript: a current point exists, so arc first draws a line to the arc's start
			if p := s.At(0); p.Dist(cur) > 1e-6*(1+scale) {
				return nil, fmt.Errorf("ellipse does not start at the current point: %v vs %v", p, cur)
			}
			s.End = s.At(1)
		default:
			if !ps && name == "re" {
				a, err := pop(4)
				if err != nil {
					return nil, err
				}
				x, y, w, h := a[0], a[1], a[2], a[3]
				pts := []hc.P2{{X: x, Y: y}, {X: x + w, Y: y}, {X: x + w, Y: y + h}, {X: x, Y: y + h}}
				m := gseg{}
				m.Kind, m.P0, m.End = 'M', cur, pts[0]
				out = append(out, m)
				for k := 1; k < 4; k++ {
					l := gseg{}
					l.Kind, l.P0, l.End = 'L', pts[k-1], pts[k]
					out = append(out, l)
				}
				s.Kind, s.P0, s.End = 'Z', pts[3], pts[0]
				start = pts[0]
				break
			}
			return nil, fmt.Errorf("unknown operator %q", name)
		}
		cur = s.End
		out = append(out, s)
	}
	if len(st) != 0 {
		return nil, fmt.Errorf("dangling operands")
	}
	return out, nil
}
