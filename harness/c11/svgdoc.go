package main

import (
	"fmt"
	"regexp"
	"runtime"
	"strings"
	"time"

	"github.com/tdewolff/canvas"
	"github.com/tdewolff/parse/v2"
	"github.com/tdewolff/parse/v2/xml"
	"verifharness/hc"
)

// ---- very long inputs (oracle only: too long for a protocol line) ---------------------------------

func longInputs(c *hc.Ctx) {
	n := 200000
	if c.Tier == "quick" {
		n = 60000
	}
	long := map[string]string{
		"long:whitespace":      strings.Repeat(" \n\t,", n),
		"long:implicit-lineto": "M0 0L" + strings.Repeat("1 1 2 3 ", n),
		"long:commands":        "M0 0" + strings.Repeat("l1 0v1h-1z", n/2),
		"long:digits":          "M" + strings.Repeat("7", n) + " 0",
		"long:fraction":        "M0." + strings.Repeat("3", n) + " 0",
		"long:dots":            "M0 0L" + strings.Repeat(".", n),
		"long:signs":           "M0 0L" + strings.Repeat("-", n),
		"long:packed":          "M0 0" + strings.Repeat("a1 1 0 011 1", n/4),
		"long:unknown":         strings.Repeat("x", n),
		"long:exponent":        "M1e" + strings.Repeat("9", n) + " 0",
		"long:z":               "M0 0" + strings.Repeat("z", n),
		"long:curves":          "M0 0" + strings.Repeat("c1 1 2 1 3 0s1-1 2 0q1 1 2 0t2 0", n/8),
	}
	for class, s := range long {
		t0 := time.Now()
		o := runParse(s)
		c.Evals++
		c.Count(class)
		switch {
		case o.hang:
			fail(c, "hang:ParseSVGPath", fmt.Sprintf("ParseSVGPath did not return within 20s on %d bytes (%s)", len(s), class), map[string]any{"class": class, "len": len(s)})
		case o.panic != "" && wsOnly(s):
			fail(c, "panic:ParseSVGPath-whitespace-only", "ParseSVGPath panics on a whitespace/comma-only string: "+o.panic, map[string]any{"class": class, "len": len(s)})
		case o.panic != "":
			fail(c, "panic:ParseSVGPath", "ParseSVGPath panicked: "+o.panic, map[string]any{"class": class, "len": len(s)})
		}
		if d := time.Since(t0); d > 5*time.Second {
			c.Count("long:slow>5s")
		}
	}
	// a scaled-down copy of each class goes through the model as well
	for class, s := range long {
		if len(s) > 1200 {
			s = s[:1200]
		}
		parseCase(c, "long-prefix:"+strings.TrimPrefix(class, "long:"), s)
	}
}

// ---- ParseSVG robustness ----------------------------------------------------------------------------

var reFrame = regexp.MustCompile("github\\.com/tdewolff/canvas\\.((?:\\(\\*?[A-Za-z0-9_]+\\)\\.)?[A-Za-z0-9_]+)[^\\n]*\\n\\t[^\\n]*/([^/\\n]+\\.go:\\d+)")

func runParseSVG(doc string) (panicMsg string, hang bool, err error) {
	type res struct {
		msg string
		err error
	}
	ch := make(chan res, 1)
	go func() {
		var r res
		r.msg = hc.Try(func() { _, r.err = canvas.ParseSVG(strings.NewReader(doc)) })
		ch <- r
	}()
	select {
	case r := <-ch:
		return r.msg, false, r.err
	case <-time.After(20 * time.Second):
		return "", true, nil
	}
}

func genAttrNum(c *hc.Ctx) string {
	switch c.Intn(10) {
	case 0:
		return ""
	case 1:
		return fmt.Sprintf("%d%%", c.Intn(120))
	case 2:
		return fmt.Sprintf("%d%s", c.Intn(100), []string{"px", "mm", "cm", "in", "pt", "pc", "em", "ex", "q", "zz"}[c.Intn(10)])
	case 3:
		return genNum(c)
	case 4:
		return "-" + fmt.Sprint(c.Intn(50))
	default:
		return fmt.Sprint(c.Intn(100))
	}
}

func genColor(c *hc.Ctx) string {
	if c.Chance(0.45) {
		// url(...) references: well-formed, dangling, and every truncated / mis-quoted form
		return []string{"url(#g1)", "url('#g1')", `url(&quot;#g1&quot;)`, "url(#nope)", "url(", "url(#", "url(#)", "url('#)", "url('#')", `url("#"`, "url(#a", "url(x#)", "url()", "url('')", "url(')", "url(#a')", "url( #g1)", "url(##)", "url('#g1)", "url(#g1", "url)", "url(#g1))", " url(#g1)", "url(\"#)", "url( #)", "url('#g1')"}[c.Intn(26)]
	}
	return []string{"red", "none", "#f00", "#ff0000", "#ff000080", "rgb(1,2,3)", "rgba(1,2,3,0.5)", "rgb(10%,20%,30%)", "currentColor", "#", "#12", "rgb(", "rgb(1,2)", "transparent", "inherit", "", "hsl(1,2%,3%)", "#ggg"}[c.Intn(18)]
}

func genTransform(c *hc.Ctx) string {
	fs := []string{"translate(%s,%s)", "translate(%s)", "scale(%s)", "scale(%s %s)", "rotate(%s)", "rotate(%s,%s,%s)", "skewX(%s)", "skewY(%s)", "matrix(%s %s %s %s %s %s)", "matrix(%s,%s)", "rotate()", "foo(%s)", "translate(%s", "scale"}
	var sb strings.Builder
	for k, n := 0, 1+c.Intn(3); k < n; k++ {
		f := fs[c.Intn(len(fs))]
		args := make([]any, strings.Count(f, "%s"))
		for i := range args {
			args[i] = genNum(c)
		}
		sb.WriteString(fmt.Sprintf(f, args...))
		sb.WriteString([]string{" ", ",", ""}[c.Intn(3)])
	}
	return sb.String()
}

func genStyleAttrs(c *hc.Ctx) string {
	var sb strings.Builder
	for k, n := 0, c.Intn(4); k < n; k++ {
		switch c.Intn(12) {
		case 0:
			sb.WriteString(fmt.Sprintf(` fill="%s"`, genColor(c)))
		case 1:
			sb.WriteString(fmt.Sprintf(` stroke="%s"`, genColor(c)))
		case 2:
			sb.WriteString(fmt.Sprintf(` stroke-width="%s"`, genAttrNum(c)))
		case 3:
			sb.WriteString(fmt.Sprintf(` stroke-dasharray="%s"`, []string{"1 2", "1,2,3", "none", "", "0", "1 -1", "5%", "a b"}[c.Intn(8)]))
		case 4:
			sb.WriteString(fmt.Sprintf(` transform="%s"`, genTransform(c)))
		case 5:
			sb.WriteString(fmt.Sprintf(` style="%s"`, []string{"fill:red;stroke:blue", "fill:", ";;", "stroke-width:2px;", "fill:url(#g1)", "opacity:.5", "fill-opacity:50%", "a", ":", "fill:red;fill"}[c.Intn(10)]))
		case 6:
			sb.WriteString(fmt.Sprintf(` stroke-linecap="%s" stroke-linejoin="%s"`, []string{"butt", "round", "square", "x"}[c.Intn(4)], []string{"miter", "round", "bevel", "arcs", "x"}[c.Intn(5)]))
		case 7:
			sb.WriteString(fmt.Sprintf(` opacity="%s"`, genAttrNum(c)))
		case 8:
			sb.WriteString(fmt.Sprintf(` fill-rule="%s"`, []string{"nonzero", "evenodd", "x"}[c.Intn(3)]))
		case 9:
			sb.WriteString(fmt.Sprintf(` class="%s" id="%s"`, []string{"a", "b", "a b", ""}[c.Intn(4)], []string{"i1", "g1", ""}[c.Intn(3)]))
		case 10:
			sb.WriteString(fmt.Sprintf(` stroke-dashoffset="%s" stroke-miterlimit="%s"`, genAttrNum(c), genAttrNum(c)))
		case 11:
			sb.WriteString(fmt.Sprintf(` font-size="%s" font-family="%s"`, genAttrNum(c), []string{"serif", "sans-serif", "x", ""}[c.Intn(4)]))
			if c.Chance(0.5) {
				sb.WriteString(fmt.Sprintf(` marker-%s="%s"`, []string{"start", "mid", "end"}[c.Intn(3)], genColor(c)))
			}
		}
	}
	return sb.String()
}

func genElem(c *hc.Ctx, depth int) string {
	st := genStyleAttrs(c)
	switch c.Intn(13) {
	case 0:
		d, _ := genSVGPath(c)
		return fmt.Sprintf(`<path d="%s"%s/>`, d, st)
	case 1:
		return fmt.Sprintf(`<path d="%s"%s/>`, []string{"", " ", "M", "M0 0L", "5", "\n", "M0 0A1 1 0 2 0 1 1", "M1e999 0L1 1"}[c.Intn(8)], st)
	case 2:
		return fmt.Sprintf(`<rect x="%s" y="%s" width="%s" height="%s" rx="%s" ry="%s"%s/>`, genAttrNum(c), genAttrNum(c), genAttrNum(c), genAttrNum(c), genAttrNum(c), genAttrNum(c), st)
	case 3:
		return fmt.Sprintf(`<circle cx="%s" cy="%s" r="%s"%s/>`, genAttrNum(c), genAttrNum(c), genAttrNum(c), st)
	case 4:
		return fmt.Sprintf(`<ellipse cx="%s" cy="%s" rx="%s" ry="%s"%s/>`, genAttrNum(c), genAttrNum(c), genAttrNum(c), genAttrNum(c), st)
	case 5:
		return fmt.Sprintf(`<line x1="%s" y1="%s" x2="%s" y2="%s"%s/>`, genAttrNum(c), genAttrNum(c), genAttrNum(c), genAttrNum(c), st)
	case 6, 7:
		var pts []string
		for k, n := 0, c.Intn(7); k < n; k++ {
			pts = append(pts, genNum(c))
		}
		return fmt.Sprintf(`<%s points="%s"%s/>`, []string{"polyline", "polygon"}[c.Intn(2)], strings.Join(pts, []string{" ", ",", ", "}[c.Intn(3)]), st)
	case 8:
		if depth < 3 {
			var sb strings.Builder
			sb.WriteString("<g" + st + ">")
			for k, n := 0, c.Intn(3); k < n; k++ {
				sb.WriteString(genElem(c, depth+1))
			}
			sb.WriteString("</g>")
			return sb.String()
		}
		return "<g/>"
	case 9:
		return fmt.Sprintf(`<defs><linearGradient id="g1" x1="%s" y1="%s" x2="%s" y2="%s" gradientUnits="%s" gradientTransform="%s"><stop offset="%s" stop-color="%s"/><stop offset="%s" stop-color="%s" stop-opacity="%s"/></linearGradient></defs>`,
			genAttrNum(c), genAttrNum(c), genAttrNum(c), genAttrNum(c), []string{"userSpaceOnUse", "objectBoundingBox", "x"}[c.Intn(3)], genTransform(c), genAttrNum(c), genColor(c), genAttrNum(c), genColor(c), genAttrNum(c))
	case 10:
		return fmt.Sprintf(`<defs><radialGradient id="g1" cx="%s" cy="%s" r="%s" fx="%s" fy="%s"><stop offset="%s" stop-color="%s"/></radialGradient></defs>`,
			genAttrNum(c), genAttrNum(c), genAttrNum(c), genAttrNum(c), genAttrNum(c), genAttrNum(c), genColor(c))
	case 11:
		return fmt.Sprintf(`<style>%s</style>`, []string{".a{fill:red}", "path{stroke:blue;stroke-width:2}", "#i1{fill:none}", "{", "}", "a{", ".a .b > c{fill:red}", "rect[x]{fill:red}", "rect[x=\"1\"]{fill:red}", "*{opacity:.5}", "@media x{}", ".a{fill:red", "[", "a[b", "a[b=", ":hover{}"}[c.Intn(16)])
	default:
		return fmt.Sprintf(`<use href="#%s"/><image href="x.png" width="%s"/><unknown foo="bar"/>`, []string{"i1", "g1", ""}[c.Intn(3)], genAttrNum(c))
	}
}

func genDoc(c *hc.Ctx) string {
	var sb strings.Builder
	if c.Chance(0.2) {
		sb.WriteString(`<?xml version="1.0" encoding="UTF-8"?>` + "\n")
	}
	sb.WriteString(`<svg xmlns="http://www.w3.org/2000/svg"`)
	if c.Chance(0.15) {
		sb.WriteString(fmt.Sprintf(` %s="%s"`, []string{"fill", "stroke"}[c.Intn(2)], genColor(c)))
	}
	if c.Chance(0.8) {
		sb.WriteString(fmt.Sprintf(` width="%s" height="%s"`, genAttrNum(c), genAttrNum(c)))
	}
	if c.Chance(0.6) {
		vb := []string{"0 0 100 100", "0,0,50,50", "-10 -10 20 20", "0 0 0 0", "0 0 100", "", "a b c d", "0 0 1e9 1e-9", "0 0 -5 -5"}[c.Intn(9)]
		sb.WriteString(fmt.Sprintf(` viewBox="%s"`, vb))
	}
	sb.WriteString(">")
	for k, n := 0, c.Intn(5); k < n; k++ {
		sb.WriteString(genElem(c, 0))
	}
	sb.WriteString("</svg>")
	return sb.String()
}

func mutateDoc(c *hc.Ctx, s string) string {
	if len(s) < 2 {
		return s
	}
	switch c.Intn(6) {
	case 0:
		return s[:c.Intn(len(s))]
	case 1:
		k := c.Intn(len(s))
		return s[:k] + s[k+1:]
	case 2:
		k := c.Intn(len(s))
		junk := "<>/\"'= &;#x\x00"
		return s[:k] + string(junk[c.Intn(len(junk))]) + s[k:]
	case 3:
		k, l := c.Intn(len(s)), c.Intn(len(s))
		if k > l {
			k, l = l, k
		}
		return s[:k] + s[l:]
	case 4:
		k, l := c.Intn(len(s)), c.Intn(len(s))
		if k > l {
			k, l = l, k
		}
		return s[:l] + s[k:l] + s[l:]
	default:
		return strings.Replace(s, "<svg", "<g", 1)
	}
}

func runtimeStack(buf []byte) int { return runtime.Stack(buf, false) }

// pathDataAttrs lists the values of all `d` attributes as svg.go's parseAttributes extracts them
// (same XML lexer, first and last byte of the raw value stripped).
func pathDataAttrs(doc string) []string {
	var out []string
	l := xml.NewLexer(parse.NewInputString(doc))
	for {
		tt, _ := l.Next()
		if tt == xml.ErrorToken {
			return out
		}
		if tt == xml.AttributeToken && string(l.Text()) == "d" {
			if val := l.AttrVal(); len(val) >= 2 {
				out = append(out, string(val[1:len(val)-1]))
			}
		}
	}
}

// panicClass names the defect by functions (line numbers move when unrelated code changes) and by
// the class of path data in the document: innermost library function, innermost svg.go function,
// and whether the document has a whitespace-only / a rejected `d` attribute.
func panicClass(doc string) string {
	cls := ""
	func() {
		defer func() {
			if r := recover(); r != nil {
				buf := make([]byte, 1<<15)
				buf = buf[:runtimeStack(buf)]
				ms := reFrame.FindAllStringSubmatch(string(buf), -1)
				inner, svgf := "?", "?"
				for _, m := range ms {
					if inner == "?" {
						inner = m[1]
					}
					if svgf == "?" && strings.HasPrefix(m[2], "svg.go:") {
						svgf = m[1]
					}
				}
				ws, rejected := false, false
				for _, d := range pathDataAttrs(doc) {
					if wsOnly(d) {
						ws = true
					} else if o := runParse(d); o.err != nil {
						rejected = true
					}
				}
				msg := fmt.Sprint(r)
				switch {
				case strings.Contains(msg, "index out of range") && inner == "ParseSVGPath" && svgf == "(*svgParser).drawShape" && ws:
					cls = "whitespace-only-path-data"
				case strings.Contains(msg, "nil pointer") && svgf == "(*svgParser).drawShape" && rejected:
					cls = "rejected-path-data-nil-deref"
				case strings.Contains(msg, "slice bounds out of range") && inner == "(*svgParser).parseUrlID":
					cls = "parseUrlID-slice-bounds"
				default:
					if len(msg) > 50 {
						msg = msg[:50]
					}
					cls = inner + "<" + svgf + ":" + reDigits.ReplaceAllString(msg, "N")
				}
			}
		}()
		canvas.ParseSVG(strings.NewReader(doc))
	}()
	return cls
}

var reDigits = regexp.MustCompile(`[0-9]+`)

func parseSVGDocs(c *hc.Ctx) {
	docs := []string{
		``, `<svg/>`, `<svg></svg>`, `<g/>`, `<svg><path d=" "/></svg>`, `<svg><path d=""/></svg>`, `<svg width="10" height="10"><path d="M0 0L5 5z"/></svg>`,
		`<svg viewBox="0 0 10"><rect width="5" height="5"/></svg>`, `<svg><style></style></svg>`, `<svg><style>`, `<svg><defs>`, `<svg><defs/></svg>`, `<svg><text x="1" y="1">hi</text></svg>`,
		`<svg><polygon points="1"/></svg>`, `<svg><polyline points=""/></svg>`, `<svg><g transform="matrix(1 2 3)"><rect width="1" height="1"/></g></svg>`, `<svg><rect fill="url(#x)" width="1" height="1"/></svg>`,
		`<svg></g></g></svg>`, `</svg>`, `<svg><circle r="-1"/></svg>`,
	}
	n := c.N / 2
	for it := 0; it < n; it++ {
		d := genDoc(c)
		docs = append(docs, d)
		for k := 0; k < 2; k++ {
			m := mutateDoc(c, d)
			if c.Chance(0.3) {
				m = mutateDoc(c, m)
			}
			docs = append(docs, m)
		}
	}
	for i, d := range docs {
		msg, hang, err := runParseSVG(d)
		c.Evals++
		c.Distinct("svg" + d)
		switch {
		case hang:
			c.Count("parsesvg:hang")
			fail(c, "hang:ParseSVG", "ParseSVG did not return within 20s", map[string]any{"doc": d})
		case msg != "":
			c.Count("parsesvg:panic")
			cls := panicClass(d)
			fail(c, "panic:ParseSVG:"+cls, "ParseSVG panicked: "+msg, map[string]any{"doc": d})
		case err != nil:
			c.Count("parsesvg:error")
		default:
			c.Count("parsesvg:ok")
		}
		if i == 30 {
			c.Sample("ParseSVG document: " + d)
		}
	}
}
