package main

// C11 harness: textual path formats round-trip and parsers never panic.
//  1. correspondence of the byte-level Lean model of ParseSVGPath (and of the number lexer model)
//     with the real code on printer output, grammar-generated strings, their mutants, random bytes,
//     whitespace-only strings and long inputs:  ok <data> | err kind cmd pos n | panic
//  2. the printers' output is tokenised here and handed, with the path's data array, to the Lean L3
//     interpreters, which judge that the tokens decode to the path (SVG / PDF / PS lines)
//  3. oracles on the real code with the independent Go interpreters of interp.go: String round trip
//     (exact), ToSVG round trip and decoding (to output precision), ToPDF / ToPS decoding, no panic
//     and no hang of ParseSVGPath and ParseSVG.

import (
	"encoding/hex"
	"fmt"
	"math"
	"regexp"
	"strconv"
	"strings"
	"time"

	"github.com/tdewolff/canvas"
	pstrconv "github.com/tdewolff/parse/v2/strconv"
	"verifharness/hc"
)

func main() { hc.Main("C11", run) }

// fail records a property failure; at most 6 records per kind are kept (all are counted), so that a
// recurring known finding cannot crowd a new failure out of the harness's bounded failure list.
var failsPerKind = map[string]int{}

func fail(c *hc.Ctx, kind, desc string, replay any) {
	failsPerKind[kind]++
	if failsPerKind[kind] <= 6 {
		c.Fail(kind, desc, replay)
	} else {
		c.Count("FAIL:" + kind)
	}
}

func run(c *hc.Ctx) {
	parts := []struct {
		name string
		f    func(*hc.Ctx)
	}{{"parser", corrParser}, {"lexer", corrLexer}, {"numbers", numbers}, {"printers", printers}, {"long", longInputs}, {"svg", parseSVGDocs}}
	for _, p := range parts {
		if c.Only == "" || c.Only == p.name {
			p.f(c)
		}
	}
}

// ---- running the real parser ------------------------------------------------------------------

type outcome struct {
	p     *canvas.Path
	err   error
	panic string
	hang  bool
}

func runParse(s string) outcome {
	ch := make(chan outcome, 1)
	go func() {
		var o outcome
		o.panic = hc.Try(func() { o.p, o.err = canvas.ParseSVGPath(s) })
		ch <- o
	}()
	select {
	case o := <-ch:
		return o
	case <-time.After(20 * time.Second):
		return outcome{hang: true}
	}
}

// an arc flag directly followed by another flag or a number, no separator
var packedFlags = regexp.MustCompile(`[Aa][^A-Za-z]*?[ ,][01][01][-+.0-9]`)

var reErrs = []*regexp.Regexp{
	regexp.MustCompile(`^bad path: path should start with command$`),
	regexp.MustCompile(`^bad path: largeArc and sweep flags should be 0 or 1 in command '(.|\n)' at position (\d+)$`),
	regexp.MustCompile(`^bad path: unknown command '(.|\n)' at position (\d+)$`),
	regexp.MustCompile(`^bad path: sets of (\d+) numbers should follow command '(.|\n)' at position (\d+)$`),
	regexp.MustCompile(`^bad path: number should follow command '(.|\n)' at position (\d+)$`),
}

func canonOutcome(o outcome) string {
	switch {
	case o.hang:
		return "hang"
	case o.panic != "":
		return "panic"
	case o.err != nil:
		msg := o.err.Error()
		for k, re := range reErrs {
			m := re.FindStringSubmatch(msg)
			if m == nil {
				continue
			}
			switch k {
			case 0:
				return "err 0 0 0 0"
			case 3:
				return fmt.Sprintf("err 3 %d %s %s", []rune(m[2])[0], m[3], m[1])
			default:
				return fmt.Sprintf("err %d %d %s 0", k, []rune(m[1])[0], m[2])
			}
		}
		return "err ? " + hex.EncodeToString([]byte(msg))
	}
	if len(o.p.Data()) == 0 {
		return "ok"
	}
	return "ok " + hc.DataHex(o.p.Data())
}

func hexOf(s string) string {
	if s == "" {
		return "-"
	}
	return hex.EncodeToString([]byte(s))
}

func wsOnly(s string) bool {
	if s == "" || s[0] == ',' {
		return false
	}
	for i := 0; i < len(s); i++ {
		if b := s[i]; !(b == ' ' || b == ',' || b == '\n' || b == '\r' || b == '\t') {
			return false
		}
	}
	return true
}

// parseCase runs one string through the real parser, judges "result or error, no panic, no hang",
// and (if short enough for a protocol line) records the correspondence case.
func parseCase(c *hc.Ctx, class, s string) outcome {
	o := runParse(s)
	c.Evals++
	c.Count("parse:" + class)
	out := canonOutcome(o)
	c.Count("outcome:" + strings.SplitN(out, " ", 3)[0] + func() string {
		if strings.HasPrefix(out, "err ") {
			return ":" + strings.Fields(out)[1]
		}
		return ""
	}())
	if o.hang {
		fail(c, "hang:ParseSVGPath", "ParseSVGPath did not return within 20s", map[string]any{"input_hex": hexOf(s)})
	} else if o.panic != "" {
		if wsOnly(s) {
			fail(c, "panic:ParseSVGPath-whitespace-only", "ParseSVGPath panics on a whitespace/comma-only string: "+o.panic, map[string]any{"input": s, "input_hex": hexOf(s)})
		} else {
			fail(c, "panic:ParseSVGPath", "ParseSVGPath panicked: "+o.panic, map[string]any{"input": s, "input_hex": hexOf(s)})
		}
	}
	// which parts of the grammar this input exercises (counted once per input)
	if ts, err := tokenizeSVG(s); err == nil {
		seen := map[string]bool{}
		args, lastCmd := 0, byte(0)
		for i, t := range ts {
			switch t.kind {
			case 'c':
				seen["grammar:cmd:"+string(t.c)] = true
				args, lastCmd = 0, t.c&^0x20
			case 'f':
				seen["grammar:arc-flag"] = true
				args++
			default:
				args++
			}
			if ar := svgArity[lastCmd]; ar > 0 && args > ar && i > 0 {
				seen["grammar:implicit-repeat:"+string(lastCmd)] = true
			}
		}
		if packedFlags.MatchString(s) {
			seen["grammar:packed-flags"] = true
		}
		for k := range seen {
			c.Count(k)
		}
	}
	if len(s) <= 2500 && !o.hang {
		c.Case("P "+hexOf(s), "~", out)
		c.Distinct(s)
	}
	return o
}

// ---- generators -----------------------------------------------------------------------------------

func genNum(c *hc.Ctx) string {
	switch c.Intn(12) {
	case 0:
		return fmt.Sprint(c.Intn(200) - 100)
	case 1:
		return fmt.Sprintf("%.1f", c.Range(-50, 50))
	case 2:
		return strings.TrimPrefix(fmt.Sprintf("%.3f", c.Range(0, 1)), "0") // .123
	case 3:
		return "-" + strings.TrimPrefix(fmt.Sprintf("%.2f", c.Range(0, 1)), "0")
	case 4:
		return fmt.Sprintf("%de%d", c.Intn(100), c.Intn(7)-3)
	case 5:
		return fmt.Sprintf("%g", c.Norm()*10)
	case 6:
		return fmt.Sprintf("+%d", c.Intn(50))
	case 7:
		return fmt.Sprintf("%d.", c.Intn(50))
	case 8:
		return fmt.Sprintf("%.2fE+%d", c.Range(-9, 9), c.Intn(3))
	default:
		return fmt.Sprint(float64(c.Intn(400)-200) / 4)
	}
}

var svgCmds = "MmZzLlHhVvCcSsQqTtAa"

// genSVGPath writes a random string of the SVG path grammar: every command in both cases, implicit
// repetition, numbers glued by signs and dots, packed arc flags, assorted separators.
func genSVGPath(c *hc.Ctx) (string, []string) {
	var toks []string
	n := 1 + c.Intn(8)
	toks = append(toks, []string{"M", "m"}[c.Intn(2)], genNum(c), genNum(c))
	for k := 0; k < n; k++ {
		cmd := svgCmds[c.Intn(len(svgCmds))]
		reps := 1
		if c.Chance(0.25) {
			reps = 2 + c.Intn(2)
		}
		toks = append(toks, string(cmd))
		ar := svgArity[cmd&^0x20]
		if ar == 0 {
			continue
		}
		for r := 0; r < reps; r++ {
			for j := 0; j < ar; j++ {
				if cmd&^0x20 == 'A' && (j == 3 || j == 4) {
					toks = append(toks, "F"+fmt.Sprint(c.Intn(2)))
				} else if cmd&^0x20 == 'A' && j < 2 {
					toks = append(toks, strings.TrimLeft(genNum(c), "-+")+"") // radii mostly positive
				} else {
					toks = append(toks, genNum(c))
				}
			}
		}
	}
	return joinToks(c, toks), toks
}

func joinToks(c *hc.Ctx, toks []string) string {
	var sb strings.Builder
	style := c.Intn(4) // 0 minimal, 1 spaces, 2 commas, 3 mixed
	for i, t := range toks {
		flag := strings.HasPrefix(t, "F")
		if flag {
			t = t[1:]
		}
		if i > 0 {
			prev := toks[i-1]
			prevCmd := len(prev) == 1 && strings.ContainsAny(prev, svgCmds)
			isCmd := len(t) == 1 && strings.ContainsAny(t, svgCmds)
			need := !prevCmd && !isCmd
			if need && style == 0 {
				// minimal: a sign or (after a number that already has a dot/exponent) a dot separates
				if t != "" && (t[0] == '-' || t[0] == '+') && !strings.HasPrefix(prev, "F") {
					need = false
				} else if t != "" && t[0] == '.' && strings.ContainsAny(prev, ".") && !strings.ContainsAny(prev, "eE") && !strings.HasPrefix(prev, "F") {
					need = false
				} else if strings.HasPrefix(prev, "F") {
					need = false // flags need no separator
				}
			}
			if need || style != 0 && c.Chance(0.5) {
				switch {
				case style == 2 && need, style == 3 && c.Chance(0.3) && need:
					sb.WriteString([]string{",", ", ", " ,", " , "}[c.Intn(4)])
				case style == 3 && c.Chance(0.2):
					sb.WriteString([]string{"\n", "\t", "  ", "\r\n"}[c.Intn(4)])
				default:
					sb.WriteByte(' ')
				}
			}
		}
		sb.WriteString(t)
	}
	return sb.String()
}

func mutate(c *hc.Ctx, s string, toks []string) string {
	switch c.Intn(10) {
	case 0: // delete a token
		if len(toks) > 1 {
			k := c.Intn(len(toks))
			return joinToks(c, append(append([]string{}, toks[:k]...), toks[k+1:]...))
		}
	case 1: // duplicate a token
		k := c.Intn(len(toks))
		t := append(append(append([]string{}, toks[:k+1]...), toks[k]), toks[k+1:]...)
		return joinToks(c, t)
	case 2: // truncate the token list (missing arguments)
		return joinToks(c, toks[:1+c.Intn(len(toks))])
	case 3: // truncate the string (truncated number)
		if len(s) > 1 {
			return s[:1+c.Intn(len(s)-1)]
		}
	case 4: // delete a byte
		if len(s) > 1 {
			k := c.Intn(len(s))
			return s[:k] + s[k+1:]
		}
	case 5: // replace a byte
		k := c.Intn(len(s))
		repl := "MmZzLlHhVvCcSsQqTtAa0123456789.-+eE, \n\t\rxX#\x00\xff\xe9Gg'"
		return s[:k] + string(repl[c.Intn(len(repl))]) + s[k+1:]
	case 6: // insert a byte
		k := c.Intn(len(s) + 1)
		repl := "MZLHVCSQTAmzlhvcsqta0123456789.-+eE, \n\t\r~"
		return s[:k] + string(repl[c.Intn(len(repl))]) + s[k:]
	case 7: // swap a token for a broken number
		k := c.Intn(len(toks))
		t := append([]string{}, toks...)
		t[k] = []string{"-", ".", "+", "e5", "1e", "1e+", "-.", "..", "1..2", "--1", "1-", "0x10", "NaN", "Inf", "1e400", "1e-400", "99999999999999999999999", "0.000000000000000000000000001", "1.2e37"}[c.Intn(19)]
		return joinToks(c, t)
	case 8: // leading / trailing junk
		return []string{" ", ",", "\n ", "  ,", "\t"}[c.Intn(5)] + s + []string{"", " ", ",", " ,", "z", " 5", "M"}[c.Intn(7)]
	case 9: // change case of a command
		b := []byte(s)
		for tries := 0; tries < 8; tries++ {
			k := c.Intn(len(b))
			if b[k] >= 'A' && b[k] <= 'Z' || b[k] >= 'a' && b[k] <= 'z' {
				b[k] ^= 0x20
				break
			}
		}
		return string(b)
	}
	return s
}

func randBytes(c *hc.Ctx) string {
	n := c.Intn(40)
	b := make([]byte, n)
	alpha := "MZLHVCSQTAmzlhvcsqta0123456789.-+eE, \n\t\r"
	full := c.Chance(0.3)
	for i := range b {
		if full || c.Chance(0.05) {
			b[i] = byte(c.Intn(256))
		} else {
			b[i] = alpha[c.Intn(len(alpha))]
		}
	}
	return string(b)
}

func genWs(c *hc.Ctx) string {
	n := 1 + c.Intn(6)
	b := make([]byte, n)
	for i := range b {
		b[i] = " ,\n\r\t"[c.Intn(5)]
	}
	if c.Chance(0.8) && b[0] == ',' {
		b[0] = ' '
	}
	return string(b)
}

// full-precision / extreme coordinates for the printers
func genCoordWide(c *hc.Ctx) float64 {
	switch c.Intn(10) {
	case 0, 1, 2:
		return c.Norm() * 10 // 17 significant digits
	case 3:
		return c.Norm() * 1e-7
	case 4:
		return math.Round(c.Norm()*1e6) * 1e3
	case 5:
		return c.Norm() * math.Pow(10, float64(c.Intn(60)-20))
	case 6:
		if c.Chance(0.4) { // just below a power of ten: rounding to Precision digits carries
			return math.Pow(10, float64(1+c.Intn(5))) * (1 - []float64{5e-9, 4e-9, 1e-9, 6e-9, 1e-8}[c.Intn(5)]) * float64(1-2*c.Intn(2))
		}
		return c.GenCoord()
	default:
		return c.GenCoord()
	}
}

func genPathWide(c *hc.Ctx, kinds string, maxSegs int, coord func() float64) *canvas.Path {
	p := &canvas.Path{}
	ns := 1 + c.Intn(2)
	for s := 0; s < ns; s++ {
		p.MoveTo(coord(), coord())
		n := 1 + c.Intn(maxSegs)
		segStart := p.Pos() // start point of the previous segment
		for i := 0; i < n; i++ {
			before := p.Pos()
			k := kinds[c.Intn(len(kinds))]
			// a line back to an axis of the previous segment's START point: a printer that tracks the
			// pen position wrongly across a segment picks a wrong H/V/skip shorthand here
			if i > 0 && k != 'A' && c.Chance(0.15) {
				k = 'S'
			}
			switch k {
			case 'S':
				switch c.Intn(3) {
				case 0:
					p.LineTo(segStart.X, coord())
				case 1:
					p.LineTo(coord(), segStart.Y)
				default:
					p.LineTo(segStart.X, segStart.Y)
				}
			case 'L':
				p.LineTo(coord(), coord())
			case 'Q':
				p.QuadTo(coord(), coord(), coord(), coord())
			case 'C':
				p.CubeTo(coord(), coord(), coord(), coord(), coord(), coord())
			case 'A':
				// radii in proportion to the chord (0.3 … 300 times; below 0.5 the builder scales them up)
				x, y := coord(), coord()
				chord := math.Hypot(x-p.Pos().X, y-p.Pos().Y)
				rad := func() float64 { return (chord + 1e-3) * 0.3 * math.Pow(10, c.Range(0, 3)) }
				p.ArcTo(rad(), rad(), c.Range(0, 360), c.Bool(), c.Bool(), x, y)
			case 'H':
				p.LineTo(coord(), p.Pos().Y)
			case 'V':
				p.LineTo(p.Pos().X, coord())
			}
			segStart = before
		}
		if c.Chance(0.4) {
			p.Close()
		}
	}
	return p
}

// ---- 1. parser correspondence --------------------------------------------------------------------

func corrParser(c *hc.Ctx) {
	n := c.N
	// fixed seeds: the documented examples and the classes named by the property
	for _, s := range []string{"", " ", "  ", "\n", " ,", ", ", ",", "\t\r\n ", "M", "M5", "M5 5", "5", "MM", "M0 0L", "M0 0L1", "M0 0L1 1 2",
		"A10 10 000 20 0", "A10 10 0 23 20 0", "M0 0A5 5 30 011 1", "M0 0a5 5 30 1,0,1 1", "M0 0A5 5 30 2 1 1 1", "M0 0A5 5 30 1",
		"M0 0a1 1 0 00 1 1", "M0 0a1 1 0 00 1 1 1 1 0 11-1-1", "M0 0A1,1,0,0,1,1,1", "M0 0a1 1 0 0 0 1 1z5", "M0e375 0", "M18446744073709551616 0", "M27841224179597934592.5 0",
		"V4-z\n0\xecG\xdfIz\xd8", "ae000e000e00", "s........----.......---------------", "l00000000000000000000+00000000000000000000 00000000000000000000",
		"M1 1z M3 3z l1 1", "M0 0L-", "M0 0L1 1 .", "M0 0 1 1 2 2", "m1 1 1 1 1 1z", "M0 0C1 1 2 2 3 3S4 4 5 5s1 1 2 2T1 1", "M0 0Q1 1 2 2T3 3t1 1S1 1 2 2",
		"M1e2.5", "M1e2e3 4", "M-.5-.5.5.5", "M1.2e37 0", "M12e36 0", "M0.30000000000000004 0", "M18446744073709551615 18446744073709551616", "M1e-400 1e400",
		"M0 0H5V5h-5v-5z", "M0 0ZL1 1", "zzz", "Z", "z5", "M0 0zz5 5", "M0 0 \x00", "M0 0\xffL1 1", "M0,0,L1,1", "M0 0L1 1,", "M.5.5.5.5"} {
		parseCase(c, "fixed", s)
	}
	for it := 0; it < n; it++ {
		// (a) printer output
		kinds := []string{"L", "LQC", "LQCA", "A", "LHV", "LQCAHV"}[c.Intn(6)]
		var p *canvas.Path
		if c.Chance(0.5) {
			p = c.GenPath(strings.NewReplacer("H", "", "V", "").Replace(kinds)+"Z", 5, 2)
		} else {
			p = genPathWide(c, kinds, 5, func() float64 { return genCoordWide(c) })
		}
		parseCase(c, "printer:String", p.String())
		parseCase(c, "printer:ToSVG", p.ToSVG())
		// (b) grammar and its mutants
		s, toks := genSVGPath(c)
		parseCase(c, "grammar", s)
		for k := 0; k < 3; k++ {
			m := mutate(c, s, toks)
			if c.Chance(0.3) {
				m = mutate(c, m, toks)
			}
			parseCase(c, "mutant", m)
		}
		// (c) random bytes
		parseCase(c, "random", randBytes(c))
		// (d) whitespace-only
		if it%8 == 0 {
			parseCase(c, "whitespace", genWs(c))
		}
	}
}

// ---- number lexer correspondence -------------------------------------------------------------------

func genNumeral(c *hc.Ctx) string {
	var sb strings.Builder
	switch c.Intn(5) {
	case 0:
		sb.WriteByte('-')
	case 1:
		sb.WriteByte('+')
	}
	nd := c.Intn(24)
	if c.Chance(0.7) {
		nd = c.Intn(9)
	}
	for i := 0; i < nd; i++ {
		sb.WriteByte(byte('0' + c.Intn(10)))
	}
	if c.Chance(0.6) {
		sb.WriteByte('.')
		for i, m := 0, c.Intn(22); i < m; i++ {
			sb.WriteByte(byte('0' + c.Intn(10)))
		}
	}
	if c.Chance(0.4) {
		sb.WriteByte("eE"[c.Intn(2)])
		if c.Chance(0.5) {
			sb.WriteByte("+-"[c.Intn(2)])
		}
		for i, m := 0, c.Intn(4); i < m; i++ {
			sb.WriteByte(byte('0' + c.Intn(10)))
		}
		if c.Chance(0.02) {
			sb.WriteString("99999999999999999999")
		}
	}
	sb.WriteString([]string{"", "", " ", "L", ".5", "-1", "e", ",", "\x00"}[c.Intn(9)])
	return sb.String()
}

func corrLexer(c *hc.Ctx) {
	cases := []string{"", "-", ".", "+", "-.", "5", "5.", ".5", "-.5e", "1e5", "1e", "1e+", "1E-2x", "1.2e37", "12e36", "1e22", "1e23", "123456789012345678901234567890", "0.000000000000000000001",
		"18446744073709551615", "18446744073709551616", "1844674407370955161.6", "1844674407370955162", "1e308", "1e309", "1e-323", "1e-324", "4.9e-324", "1e9223372036854775807", "1e-9223372036854775808", "1e9223372036854775808",
		"0.30000000000000004", "1..2", "1.2.3", "--1", "+-1", "1e1e1", "00012", "-0", "-0.0", "1e-22", "1e-23", "9007199254740993", "1e15", "1000000000000000e22", "1000000000000001e22"}
	for i := 0; i < 2*c.N; i++ {
		if c.Chance(0.08) {
			// integer parts around the uint64 limit, with and without a dot
			d := "18446744073709551615"
			k := 17 + c.Intn(8)
			var sb strings.Builder
			for j := 0; j < k; j++ {
				if c.Chance(0.5) && j < len(d) {
					sb.WriteByte(d[j])
				} else {
					sb.WriteByte(byte('0' + c.Intn(10)))
				}
			}
			sb.WriteString([]string{"", ".", ".0", ".5", ".25e3", "e2"}[c.Intn(6)])
			cases = append(cases, sb.String())
			continue
		}
		if c.Chance(0.3) {
			cases = append(cases, fmt.Sprintf("%g", genCoordWide(c)))
		} else {
			cases = append(cases, genNumeral(c))
		}
	}
	for _, s := range cases {
		var v float64
		var n int
		if msg := hc.Try(func() { v, n = pstrconv.ParseFloat([]byte(s)) }); msg != "" {
			fail(c, "panic:strconv.ParseFloat", msg, map[string]any{"input": s})
			continue
		}
		c.Count("lexer")
		// semantic oracle on the real lexer: what it reads is the correctly rounded value of the
		// prefix it consumed, except in the three recorded defect classes (decided from the numeral)
		if n > 0 {
			want, _ := strconv.ParseFloat(s[:n], 64)
			cls := lexClass(s[:n])
			c.Count("lexer:class:" + cls)
			if u := ulpDist(v, want); u != 0 {
				rp := map[string]any{"numeral": s[:n], "read": fmt.Sprint(v), "want": fmt.Sprint(want), "class": cls}
				gross := u > 64
				switch {
				case cls == "large-exponent" && gross:
					fail(c, "lexer:large-exponent-rescaled", fmt.Sprintf("ParseFloat(%q) = %v, want %v", s[:n], v, want), rp)
				case cls == "uint64-wraparound" && gross:
					fail(c, "lexer:uint64-wraparound", fmt.Sprintf("ParseFloat(%q) = %v, want %v", s[:n], v, want), rp)
				case cls == "pow10-saturation" && gross:
					fail(c, "lexer:pow10-saturation", fmt.Sprintf("ParseFloat(%q) = %v, want %v", s[:n], v, want), rp)
				case cls == "overflow-before-dot" && gross:
					fail(c, "lexer:uint64-overflow-before-dot", fmt.Sprintf("ParseFloat(%q) = %v, want %v", s[:n], v, want), rp)
				case cls != "exact" && !gross:
					fail(c, "lexer:not-correctly-rounded", fmt.Sprintf("ParseFloat(%q) = %v, want %v (%v ulp)", s[:n], v, want, u), rp)
				default:
					fail(c, "lexer:wrong-value", fmt.Sprintf("ParseFloat(%q) = %v, want %v (class %s)", s[:n], v, want, cls), rp)
				}
			}
		}
		if n == 0 {
			c.Count("lexer:none")
		} else if n < len(s) {
			c.Count("lexer:prefix")
		}
		c.Case("LX "+hexOf(s), "~", fmt.Sprintf("%s %d", hc.H(v), n))
		c.Distinct("lx" + s)
	}
}

// genPathCoincident builds 2-5 subpaths whose MoveTo targets coincide with points the printer's or
// the parser's pen bookkeeping could confuse: the current point (end of the preceding open subpath,
// or the start of the preceding closed one), the start of the previous subpath, the start of an
// earlier subpath — several times in a row.  A shorthand that omits or reuses a MoveTo wrongly fuses
// or splits subpaths here.
func genPathCoincident(c *hc.Ctx, kinds string, coord func() float64) *canvas.Path {
	p := &canvas.Path{}
	ns := 2 + c.Intn(4)
	var starts []canvas.Point
	for s := 0; s < ns; s++ {
		x, y := coord(), coord()
		if s > 0 {
			switch c.Intn(6) {
			case 0, 1, 2: // the current point: end of an open subpath / start of the closed one
				x, y = p.Pos().X, p.Pos().Y
				c.Count("moveto:onto-current-point")
			case 3: // start of the previous subpath
				x, y = starts[len(starts)-1].X, starts[len(starts)-1].Y
				c.Count("moveto:onto-previous-start")
			case 4: // start of some earlier subpath
				q := starts[c.Intn(len(starts))]
				x, y = q.X, q.Y
				c.Count("moveto:onto-earlier-start")
			}
		}
		if c.Chance(0.25) && len(p.Data()) > 0 && p.Data()[len(p.Data())-1] == canvas.CloseCmd {
			// continue after Close without an explicit MoveTo (the builder inserts it)
			c.Count("moveto:implicit-after-close")
		} else {
			p.MoveTo(x, y)
		}
		starts = append(starts, p.Pos())
		n := 1 + c.Intn(3)
		for i := 0; i < n; i++ {
			switch kinds[c.Intn(len(kinds))] {
			case 'Q':
				p.QuadTo(coord(), coord(), coord(), coord())
			case 'C':
				p.CubeTo(coord(), coord(), coord(), coord(), coord(), coord())
			case 'A':
				x, y := coord(), coord()
				chord := math.Hypot(x-p.Pos().X, y-p.Pos().Y)
				p.ArcTo((chord+1e-3)*c.Range(0.4, 3), (chord+1e-3)*c.Range(0.4, 3), c.Range(0, 360), c.Bool(), c.Bool(), x, y)
			default:
				p.LineTo(coord(), coord())
			}
		}
		if c.Chance(0.5) {
			p.Close()
		}
	}
	return p
}
