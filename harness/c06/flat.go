package main

// Flat integer polygons: the real RayIntersections / Windings / Crossings / Contains / CCW / Filling
// against the exact-arithmetic Lean model (hit lists and query results, exact comparison) and
// against the Lean specification (verdict lines). The Go side only generates and observes.

import (
	"fmt"
	"math"
	"sort"
	"strings"

	"github.com/tdewolff/canvas"
	"verifharness/hc"
)

type fsub struct {
	closed bool
	vs     []hc.P2
}

// flatSubs reads the subpaths as they are stored (every MoveTo/LineTo end point, Close flag).
func flatSubs(p *canvas.Path) ([]fsub, bool) {
	segs, err := hc.Decode(p.Data())
	if err != nil {
		return nil, false
	}
	var out []fsub
	for _, sp := range hc.Subpaths(segs) {
		var s fsub
		for _, sg := range sp {
			switch sg.Kind {
			case 'M', 'L':
				if sg.End.X != math.Trunc(sg.End.X) || sg.End.Y != math.Trunc(sg.End.Y) {
					return nil, false
				}
				s.vs = append(s.vs, sg.End)
			case 'Z':
				s.closed = true
			default:
				return nil, false
			}
		}
		out = append(out, s)
	}
	return out, len(out) > 0
}

func subTokens(s fsub, sc int) string {
	var sb strings.Builder
	fmt.Fprintf(&sb, "%s %d", hc.B(s.closed), len(s.vs))
	for _, v := range s.vs {
		fmt.Fprintf(&sb, " %d %d", sc*int(v.X), sc*int(v.Y))
	}
	return sb.String()
}

func subsTokens(ss []fsub, sc int) string {
	parts := []string{fmt.Sprint(len(ss))}
	for _, s := range ss {
		parts = append(parts, subTokens(s, sc))
	}
	return strings.Join(parts, " ")
}

// genFlat returns a flat path with integer coordinates and the name of its class.
func genFlat(c *hc.Ctx) (*canvas.Path, string) {
	var pool []hc.P2
	switch c.Intn(10) {
	case 9:
		// Filling through an OPEN enclosing contour (baea187): the outer contour starts right after the
		// direction of the +x axis and is not closed, so that its missing closing segment lies to the
		// right of the inner contour's start vertex, where Filling casts its ray
		outer := starShaped(c, 4+c.Intn(5), 9, 0, 0, c.Bool())
		so, ok := flatSubs(outer)
		if !ok || len(so) != 1 {
			return outer, "star-shaped"
		}
		vs := so[0].vs
		// rotate: start at the vertex with the smallest positive angle (ccw order) / largest negative (cw)
		k, best := 0, math.Inf(1)
		for i, v := range vs {
			a := math.Atan2(v.Y, v.X)
			j := (i + len(vs) - 1) % len(vs)
			b := math.Atan2(vs[j].Y, vs[j].X)
			// the segment from vs[j] to vs[i] spans the +x axis if the angles have different signs and are small
			if a*b <= 0 && math.Abs(a)+math.Abs(b) < best && math.Abs(a) < math.Pi/2 && math.Abs(b) < math.Pi/2 {
				k, best = i, math.Abs(a)+math.Abs(b)
			}
		}
		P := &canvas.Path{}
		for i := range vs {
			v := vs[(k+i)%len(vs)]
			if i == 0 {
				P.MoveTo(v.X, v.Y)
			} else {
				P.LineTo(v.X, v.Y)
			}
		}
		// small inner contour around the centre, closed or open
		in := starShaped(c, 3+c.Intn(3), 1, 0, 0, c.Bool())
		if c.Bool() {
			P = P.Append(in)
		} else {
			P = in.Append(P)
		}
		return P, "nested-open-outer"
	case 8:
		// open subpath that starts at its bottom-right-most vertex (CCW takes the previous direction
		// from the implicit closing segment there), alone or inside a rectangle
		q := starShaped(c, 3+c.Intn(6), 6, c.Intn(5)-2, c.Intn(5)-2, c.Bool())
		ss, ok := flatSubs(q)
		if !ok || len(ss) != 1 {
			return q, "star-shaped"
		}
		vs := ss[0].vs
		k := 0
		for i, v := range vs {
			if v.X > vs[k].X || v.X == vs[k].X && v.Y < vs[k].Y {
				k = i
			}
		}
		P := &canvas.Path{}
		if c.Bool() {
			P.MoveTo(-12, -12)
			P.LineTo(12, -12)
			P.LineTo(12, 12)
			P.LineTo(-12, 12)
			P.Close()
		}
		for i := range vs {
			v := vs[(k+i)%len(vs)]
			if i == 0 {
				P.MoveTo(v.X, v.Y)
			} else {
				P.LineTo(v.X, v.Y)
			}
		}
		if c.Chance(0.35) {
			// drawn back to its start point without Close: the implicit closing segment has no length
			v := vs[k]
			P.LineTo(v.X, v.Y)
			return P, "open-returns-to-start"
		}
		return P, "open-start-extreme"
	case 0, 1:
		closeAll := !c.Chance(0.2)
		P := c.GenPolygon(0, &pool, closeAll)
		if c.Chance(0.4) {
			P = P.Append(c.GenPolygon(0, &pool, closeAll))
		}
		return P, "grid"
	case 2:
		// comb: one subpath zig-zagging over three rows, many hits at equal x
		P := &canvas.Path{}
		n := 8 + c.Intn(18)
		for i := 0; i < n; i++ {
			x, y := float64(c.Intn(9)), float64(c.Intn(3)-1)
			if i == 0 {
				P.MoveTo(x, y)
			} else {
				P.LineTo(x, y)
			}
		}
		P.Close()
		return P, "comb"
	case 3:
		return c.GenPolygon(3, &pool, true), "rectangles"
	case 4:
		// orthogonal walk: alternating horizontal and vertical steps on a small grid, so that several
		// horizontal edges lie on the same line (overlapping sections one after the other and nested)
		P := &canvas.Path{}
		x, y := float64(c.Intn(7)), float64(c.Intn(5)-2)
		P.MoveTo(x, y)
		n := 4 + 2*c.Intn(6)
		horiz := c.Bool()
		for i := 0; i < n; i++ {
			if horiz {
				x = float64(c.Intn(7))
			} else {
				y = float64(c.Intn(5) - 2)
			}
			P.LineTo(x, y)
			horiz = !horiz
		}
		if !c.Chance(0.1) {
			P.Close()
		}
		return P, "orthogonal"
	case 5:
		return starShaped(c, 3+c.Intn(8), 8, c.Intn(9)-4, c.Intn(9)-4, c.Bool()), "star-shaped"
	case 6:
		// tiny paths: one or two segments, degenerate ones
		P := &canvas.Path{}
		P.MoveTo(float64(c.Intn(5)-2), float64(c.Intn(5)-2))
		for i := 0; i < c.Intn(3); i++ {
			P.LineTo(float64(c.Intn(5)-2), float64(c.Intn(5)-2))
		}
		if c.Bool() {
			P.Close()
		}
		return P, "tiny"
	default:
		return nestedScene(c), "nested"
	}
}

// starShaped: n integer points around (cx,cy) sorted by angle (one per direction): a simple polygon
// that is star-shaped about its centre.
func starShaped(c *hc.Ctx, n, r, cx, cy int, reverse bool) *canvas.Path {
	type dv struct{ x, y int }
	var ds []dv
	for len(ds) < n {
		d := dv{c.Intn(2*r+1) - r, c.Intn(2*r+1) - r}
		if d.x == 0 && d.y == 0 {
			continue
		}
		dup := false
		for _, e := range ds {
			if e.x*d.y-e.y*d.x == 0 && e.x*d.x+e.y*d.y > 0 {
				dup = true
			}
		}
		if !dup {
			ds = append(ds, d)
		}
	}
	sort.Slice(ds, func(i, j int) bool {
		return math.Atan2(float64(ds[i].y), float64(ds[i].x)) < math.Atan2(float64(ds[j].y), float64(ds[j].x))
	})
	if reverse {
		for i, j := 0, len(ds)-1; i < j; i, j = i+1, j-1 {
			ds[i], ds[j] = ds[j], ds[i]
		}
	}
	// random start vertex
	k := c.Intn(len(ds))
	ds = append(ds[k:], ds[:k]...)
	P := &canvas.Path{}
	for i, d := range ds {
		if i == 0 {
			P.MoveTo(float64(cx+d.x), float64(cy+d.y))
		} else {
			P.LineTo(float64(cx+d.x), float64(cy+d.y))
		}
	}
	P.Close()
	return P
}

// nestedScene: contours around a common centre at growing scales, plus sometimes one to the side
func nestedScene(c *hc.Ctx) *canvas.Path {
	P := &canvas.Path{}
	cx, cy := c.Intn(5)-2, c.Intn(5)-2
	k := 1 + c.Intn(3)
	for i := 0; i < k; i++ {
		var q *canvas.Path
		r := []int{2, 7, 20}[i]
		if c.Chance(0.4) {
			w, h := float64(r-c.Intn(r/2+1)), float64(r-c.Intn(r/2+1))
			q = &canvas.Path{}
			q.MoveTo(float64(cx)-w, float64(cy)-h)
			q.LineTo(float64(cx)+w, float64(cy)-h)
			q.LineTo(float64(cx)+w, float64(cy)+h)
			q.LineTo(float64(cx)-w, float64(cy)+h)
			q.Close()
			if c.Bool() {
				q = q.Reverse()
			}
		} else {
			q = starShaped(c, 3+c.Intn(6), r, cx, cy, c.Bool())
		}
		P = P.Append(q)
	}
	if c.Chance(0.3) {
		P = P.Append(starShaped(c, 3+c.Intn(5), 4, cx+40, cy+c.Intn(5)-2, c.Bool()))
	}
	return P
}

// genQuery picks a query point in doubled coordinates and names its class
func genQuery(c *hc.Ctx, ss []fsub) (int, int, string) {
	s := ss[c.Intn(len(ss))]
	v := s.vs[c.Intn(len(s.vs))]
	switch c.Intn(10) {
	case 0, 1, 2:
		return 2*int(v.X) - 1 - c.Intn(14), 2 * int(v.Y), "level-with-vertex"
	case 3:
		s0 := ss[c.Intn(len(ss))]
		return 2*int(s0.vs[0].X) - 1 - c.Intn(14), 2 * int(s0.vs[0].Y), "level-with-start-vertex"
	case 4:
		if c.Bool() {
			return 2 * int(v.X), 2 * int(v.Y), "on-vertex"
		}
		i := c.Intn(len(s.vs))
		a, b := s.vs[i], s.vs[(i+1)%len(s.vs)]
		return int(a.X + b.X), int(a.Y + b.Y), "edge-midpoint"
	case 5, 6:
		return c.Intn(41) - 20, 2 * (c.Intn(19) - 9), "integer-row"
	default:
		return c.Intn(41) - 20, 2*(c.Intn(19)-9) + 1, "generic-row"
	}
}

func tbTok(t float64) string {
	if t == 0 {
		return "0"
	} else if t == 1 {
		return "1"
	}
	return "m"
}

// branch histogram of windings() over an observed hit list (replica used for counting only)
func countBranches(c *hc.Ctx, zs []canvas.Intersection) {
	overlap := false
	for i := 0; i < len(zs); i++ {
		z := zs[i]
		switch {
		case z.T[0] == 0:
			c.Count("windings-branch:t0zero")
		case z.T[1] != 0 && z.T[1] != 1:
			if z.Same {
				c.Count("windings-branch:mid-same")
			} else {
				c.Count("windings-branch:generic")
			}
		default:
			if i+1 >= len(zs) {
				if z.Same {
					c.Count("windings-branch:last-same-alone")
				} else {
					c.Count("windings-branch:unpaired-endpoint(panic)")
				}
				return
			}
			z2 := zs[i+1]
			switch {
			case !z.Same && !z2.Same:
				if z2.T[1] != 0 && z2.T[1] != 1 {
					c.Count("windings-branch:endpoint-paired-with-generic")
				} else if z.Into() == z2.Into() {
					c.Count("windings-branch:vertex-cross")
				} else {
					c.Count("windings-branch:vertex-touch")
				}
			case z.Same != z2.Same:
				if !overlap {
					c.Count("windings-branch:overlap-enter")
				} else {
					c.Count("windings-branch:overlap-leave")
				}
				overlap = !overlap
			default:
				c.Count("windings-branch:same-same")
			}
			i++
		}
	}
}

func runFlat(c *hc.Ctx) {
	rules := []canvas.FillRule{canvas.NonZero, canvas.EvenOdd, canvas.Positive, canvas.Negative}
	for it := 0; it < c.N; it++ {
		P, class := genFlat(c)
		ss, ok := flatSubs(P)
		if !ok {
			continue
		}
		empty := false
		for _, s := range ss {
			if len(s.vs) == 0 {
				empty = true
			}
		}
		if empty {
			continue
		}
		c.Count("flat-model class:" + class)
		c.Distinct(P.String())
		split := P.Split()
		if len(split) != len(ss) {
			c.Count("flat-model skipped: Split drops a lone MoveTo")
			continue
		}
		emit := func(px, py int, qclass string, withHits, withX bool) {
			x, y := float64(px)/2, float64(py)/2
			c.Count("flat-model query:" + qclass)
			// hit lists of every subpath
			for i, pi := range split {
				if !withHits {
					break
				}
				var zs []canvas.Intersection
				if msg := hc.Try(func() { zs = pi.RayIntersections(x, y) }); msg != "" {
					c.Fail("panic:RayIntersections", msg, map[string]any{"P": P.String(), "point": []float64{x, y}})
					continue
				}
				var fl, xs []string
				for _, z := range zs {
					fl = append(fl, fmt.Sprintf("%s %s %s %s", hc.B(z.T[0] == 0), hc.B(z.Into()), tbTok(z.T[1]), hc.B(z.Same)))
					xs = append(xs, hc.H(z.X))
				}
				if len(zs) == 0 {
					fl, xs = []string{"-"}, []string{"-"}
				}
				c.Case(fmt.Sprintf("RAYHITS %s %d %d %d", hc.B(ss[i].closed), px, py, len(ss[i].vs))+vertTokens(ss[i], 2), "=", strings.Join(fl, " "))
				if withX {
					c.Case(fmt.Sprintf("RAYX 2 %s %d %d %d", hc.B(ss[i].closed), px, py, len(ss[i].vs))+vertTokens(ss[i], 2), "~", strings.Join(xs, " "))
				}
				c.Count(fmt.Sprintf("flat-model hits:%s", bucket(len(zs))))
				countBranches(c, zs)
			}
			// whole queries
			var w, cr int
			var bd, bd2 bool
			wout := ""
			if msg := hc.Try(func() { w, bd = P.Windings(x, y) }); msg != "" {
				wout = "panic"
				c.Count("flat-model Windings panics")
			} else {
				wout = fmt.Sprintf("%d %s", w, hc.B(bd))
			}
			cout := ""
			if msg := hc.Try(func() { cr, bd2 = P.Crossings(x, y) }); msg != "" {
				cout = "panic"
			} else {
				cout = fmt.Sprintf("%d %s", cr, hc.B(bd2))
			}
			tout := ""
			if wout == "panic" {
				tout = "panic"
			} else {
				var ts []string
				for _, r := range rules {
					r := r
					var got bool
					if msg := hc.Try(func() { got = P.Contains(x, y, r) }); msg != "" {
						ts = append(ts, "panic")
					} else {
						ts = append(ts, hc.B(got))
					}
				}
				tout = strings.Join(ts, " ")
			}
			c.Evals++
			c.Case(fmt.Sprintf("WQ %d %d %s", px, py, subsTokens(ss, 2)), "=", fmt.Sprintf("W %s C %s T %s", wout, cout, tout))
			if cout != "panic" {
				// Crossings judged by the specification wherever the path does not merely touch the ray
				c.Case(fmt.Sprintf("CROSSV %d %d %s %d", px, py, subsTokens(ss, 2), cr), "!", "crossings-spec")
			}
		}
		npts := 10
		for k := 0; k < npts; k++ {
			px, py, qclass := genQuery(c, ss)
			emit(px, py, qclass, true, k%3 == 0)
		}
		if c.Tier != "quick" && it%8 == 0 {
			// boundary sweep: every point of the doubled grid in a window around the path
			x0, y0, x1, y1 := math.Inf(1), math.Inf(1), math.Inf(-1), math.Inf(-1)
			for _, sb := range ss {
				for _, v := range sb.vs {
					x0, y0, x1, y1 = math.Min(x0, v.X), math.Min(y0, v.Y), math.Max(x1, v.X), math.Max(y1, v.Y)
				}
			}
			if (x1-x0)*(y1-y0) <= 120 {
				for py := 2*int(y0) - 1; py <= 2*int(y1)+1; py++ {
					for px := 2*int(x0) - 3; px <= 2*int(x1)+1; px++ {
						emit(px, py, "sweep", false, false)
					}
				}
				c.Count("flat-model boundary sweeps")
			}
		}

		// CCW of every subpath on its own: model (exact tie) and specification (area sign)
		for i, pi := range split {
			var ccw bool
			if msg := hc.Try(func() { ccw = pi.CCW() }); msg != "" {
				c.Fail("panic:CCW-flat", "CCW panicked: "+msg, map[string]any{"P": pi.String()})
				continue
			}
			c.Evals++
			c.Case(fmt.Sprintf("CCWM %s %d", hc.B(ss[i].closed), len(ss[i].vs))+vertTokens(ss[i], 1)+" "+hc.B(ccw), "!", "ccw-model")
			sfx := ""
			if !ss[i].closed {
				sfx = " +open"
			}
			c.Case(fmt.Sprintf("CCWSPEC %s %d", hc.B(ss[i].closed), len(ss[i].vs))+vertTokens(ss[i], 1)+" "+hc.B(ccw), "!", "ccw-flat"+sfx)
			c.Count("flat-model ccw")
		}

		// Filling: model (exact tie) and specification on nested scenes
		allClosed := true
		for _, s := range ss {
			if !s.closed {
				allClosed = false
			}
		}
		for ri, r := range rules {
			r := r
			var f []bool
			rep := ""
			if msg := hc.Try(func() { f = P.Filling(r) }); msg != "" {
				rep = "panic"
				c.Count("flat-model Filling panics")
			} else {
				for _, b := range f {
					rep += hc.B(b)
				}
				if rep == "" {
					rep = "-"
				}
			}
			c.Evals++
			c.Case(fmt.Sprintf("FILLM %d %s %s", ri, subsTokens(ss, 1), rep), "!", "filling-model")
			if rep != "panic" {
				sfx := ""
				if !allClosed {
					sfx = " +open"
				}
				c.Case(fmt.Sprintf("FILLSPEC %d %s %s", ri, subsTokens(ss, 1), rep), "!", "filling-flat"+sfx)
			}
			c.Count("flat-model filling")
		}
	}
}

func vertTokens(s fsub, sc int) string {
	var sb strings.Builder
	for _, v := range s.vs {
		fmt.Fprintf(&sb, " %d %d", sc*int(v.X), sc*int(v.Y))
	}
	return sb.String()
}

func bucket(n int) string {
	switch {
	case n == 0:
		return "0"
	case n <= 2:
		return "1-2"
	case n <= 6:
		return "3-6"
	case n <= 12:
		return "7-12"
	}
	return ">12"
}
