package main

import (
	"fmt"
	"math"
	"sort"
	"strings"

	"github.com/tdewolff/canvas"
	"verifharness/hc"
)

func main() { hc.Main("C06", run) }

// points closer than this to the boundary are "on the boundary" for the queries (Epsilon fuzz)
const band = 1e-7

func run(c *hc.Ctx) {
	// 1. windings(): every intersection list of length <= 4 over the 16 flag kinds (exhaustive in
	//    thorough; length <= 3 in quick), then random longer lists
	maxLen := 3
	if c.Tier != "quick" {
		maxLen = 4
	}
	var rec func(prefix [][4]bool)
	emit := func(flags [][4]bool) {
		var toks []string
		for _, f := range flags {
			for _, b := range f {
				toks = append(toks, hc.B(b))
			}
		}
		n, bd, pan := canvas.VerifWindings(flags)
		out := fmt.Sprintf("%d %s", n, hc.B(bd))
		if pan != "" {
			out = "panic"
			c.Count("windings-panic")
		}
		c.Case("WIND "+strings.Join(toks, " "), "=", out)
	}
	rec = func(prefix [][4]bool) {
		emit(prefix)
		if len(prefix) == maxLen {
			return
		}
		for k := 0; k < 16; k++ {
			rec(append(append([][4]bool{}, prefix...), [4]bool{k&1 != 0, k&2 != 0, k&4 != 0, k&8 != 0}))
		}
	}
	rec(nil)
	c.Count("windings-table")
	for it := 0; it < c.N*5; it++ {
		n := 5 + c.Intn(12)
		flags := make([][4]bool, n)
		for i := range flags {
			flags[i] = [4]bool{c.Chance(0.1), c.Bool(), c.Chance(0.4), c.Chance(0.2)}
		}
		emit(flags)
	}

	// 1a. FillRule.Fills: the definition translated from source (L1), complete small table + random
	fillsHook := canvas.VerifFuncs["FillRule.Fills"].(func(canvas.FillRule, int) bool)
	for r := 0; r <= 4; r++ {
		for w := -6; w <= 6; w++ {
			c.Case(fmt.Sprintf("L1 FillRule.Fills %d %d", r, w), "=", hc.B(fillsHook(canvas.FillRule(r), w)))
			c.Count("l1:FillRule.Fills")
		}
	}

	c.Sample("L1 FillRule.Fills 1 3 => " + hc.B(fillsHook(canvas.EvenOdd, 3)))

	// 1b. flat integer polygons: hit lists and whole queries against the exact-arithmetic Lean model,
	//     CCW / Filling against model and specification
	runFlat(c)

	// 2. flat polygons: Windings judged by the exact Lean specification, with query points level
	//    with vertices, on the lines of horizontal edges, and generic
	for it := 0; it < c.N; it++ {
		var pool []hc.P2
		class := []int{0, 0, 2, 3, 3}[c.Intn(5)]
		closeAll := !c.Chance(0.15)
		P := c.GenPolygon(class, &pool, closeAll)
		if c.Chance(0.4) {
			P = P.Append(c.GenPolygon(class, &pool, closeAll))
		}
		if c.Chance(0.3) {
			// combs: one subpath zig-zagging over a few levels on a small grid, so that a ray level with a
			// row meets MANY hits (more than a dozen) with several at the same x (pinches, vertices on
			// other edges): the order of equal-x hits in the sorted intersection list matters here
			P = &canvas.Path{}
			class, closeAll = 4, true
			n := 13 + c.Intn(18)
			for i := 0; i < n; i++ {
				v := hc.P2{X: float64(c.Intn(9)), Y: float64(c.Intn(3) - 1)}
				if i == 0 {
					P.MoveTo(v.X, v.Y)
				} else {
					P.LineTo(v.X, v.Y)
				}
			}
			P.Close()
			c.Count("comb")
		}
		cs, ok := hc.Contours(P)
		if !ok || len(cs) == 0 {
			continue
		}
		for _, ct := range cs {
			if len(ct) == 0 {
				ok = false
			}
		}
		if !ok {
			continue
		}
		openPath := strings.Count(P.String(), "M") != strings.Count(P.String(), "z")
		missing := missingClosings(P)
		var pts []hc.P2
		for k := 0; k < 30; k++ {
			var pt hc.P2
			switch c.Intn(4) {
			case 0: // level with a vertex
				ct := cs[c.Intn(len(cs))]
				v := ct[c.Intn(len(ct))]
				pt = hc.P2{X: v.X - float64(1+c.Intn(6)) + 0.5*float64(c.Intn(2)), Y: v.Y}
			case 1: // integer grid point (often level with several vertices / on horizontal edge lines)
				pt = hc.P2{X: float64(c.Intn(21)-10) + 0.5, Y: float64(c.Intn(19) - 9)}
			default:
				pt = c.SamplePoints(1, cs)[0]
			}
			pts = append(pts, pt)
		}
		groups := map[string]*struct {
			pts []hc.P2
			ws  []string
		}{}
		failed := false
		for _, pt := range pts {
			c.Evals++
			var w, cr int
			var bd, bd2 bool
			// cause predicate of the open-subpath finding: the ray meets the missing closing segment
			open := rayMeetsMissingClose(pt, missing)
			msg := hc.Try(func() {
				w, bd = P.Windings(pt.X, pt.Y)
				cr, bd2 = P.Crossings(pt.X, pt.Y)
			})
			far := hc.DistToContours(pt, cs) > band
			if msg != "" {
				first := strings.SplitN(msg, "\n", 2)[0]
				kind := "panic:Windings:" + first
				if illConditioned(pt, cs) {
					kind += "+near-level"
				} else if coincidentHits(pt, cs) {
					kind += "+coincident-hits"
				}
				if open {
					kind += "+open"
				}
				if !failed {
					c.Fail(kind, "Windings/Crossings panicked: "+first, map[string]any{"P": P.String(), "point": []float64{pt.X, pt.Y}})
					failed = true
				}
				continue
			}
			if !far {
				c.Count("point-in-band")
				continue
			}
			if illConditioned(pt, cs) {
				c.Count("query-near-level-vertex") // judged since 84dad99 (was skipped)
			}
			if bd || bd2 {
				c.Fail("boundary-reported-off-boundary", fmt.Sprintf("point (%v,%v) is %.3g away from the path but reported as boundary", pt.X, pt.Y, hc.DistToContours(pt, cs)),
					map[string]any{"P": P.String(), "point": []float64{pt.X, pt.Y}})
				continue
			}
			// independent float oracle (search + readable replay); the Lean spec decides below
			if wf := hc.WnFloat(pt, cs); wf != w && c.Tier == "search" {
				c.Fail("windings-flat:windings"+flatClass(pt, cs, open), fmt.Sprintf("Windings(%v,%v)=%d but the winding number is %d", pt.X, pt.Y, w, wf), map[string]any{"P": P.String(), "point": []float64{pt.X, pt.Y}})
			}
			if cn := crossingsFloat(pt, cs); cn >= 0 && illConditioned(pt, cs) {
				// a vertex within Epsilon of the ray counts as lying on it (84dad99): the exact count of
				// the unsnapped polygon may differ by a touch (2), the parity may not
				c.Count("crossings-near-level: parity only")
				if (cn-cr)%2 != 0 {
					c.Fail("crossings-flat+near-level", fmt.Sprintf("Crossings(%v,%v)=%d but the ray crosses the boundary %d times (parity differs)", pt.X, pt.Y, cr, cn), map[string]any{"P": P.String(), "point": []float64{pt.X, pt.Y}})
				}
			} else if cn >= 0 && cn != cr {
				osf := ""
				if open {
					osf = "+open"
				}
				c.Fail("crossings-flat"+osf, fmt.Sprintf("Crossings(%v,%v)=%d but the ray crosses the boundary %d times", pt.X, pt.Y, cr, cn), map[string]any{"P": P.String(), "point": []float64{pt.X, pt.Y}})
			}
			for rule := 0; rule < 4; rule++ {
				got := P.Contains(pt.X, pt.Y, canvas.FillRule(rule))
				fl := canvas.VerifFuncs["FillRule.Fills"].(func(canvas.FillRule, int) bool)(canvas.FillRule(rule), w)
				if got != fl {
					c.Fail("contains-not-fills", fmt.Sprintf("Contains(%v,%v,%d)=%v but Fills(Windings=%d)=%v", pt.X, pt.Y, rule, got, w, fl), map[string]any{"P": P.String(), "point": []float64{pt.X, pt.Y}})
				}
			}
			cl := flatClass(pt, cs, open)
			if illConditioned(pt, cs) {
				cl = "+near-level" + cl
			}
			g := groups[cl]
			if g == nil {
				g = &struct {
					pts []hc.P2
					ws  []string
				}{}
				groups[cl] = g
			}
			g.pts = append(g.pts, pt)
			g.ws = append(g.ws, fmt.Sprint(w))
			if cl != "" {
				c.Count("query-class:" + cl)
			}
		}
		var classes []string
		for cl := range groups {
			classes = append(classes, cl)
		}
		sort.Strings(classes)
		for _, cl := range classes {
			g := groups[cl]
			sfx := ""
			if cl != "" {
				sfx = " " + cl
			}
			line := fmt.Sprintf("REGION wind %s P %s PTS %s W %s", hc.H(band), hc.PolyTokens(cs), hc.PtsTokens(g.pts), strings.Join(g.ws, " "))
			c.Case(line, "!", "windings-flat"+sfx)
			c.Distinct(P.String())
			c.Count(fmt.Sprintf("flat class:%d open:%v", class, openPath))
			if it == 0 && cl == "" {
				c.Sample(fmt.Sprintf("Windings of %q at %v -> %v", P.String(), g.pts[:1], g.ws[:1]))
			}
		}
		// on-boundary points are reported as boundary
		ct := cs[c.Intn(len(cs))]
		i := c.Intn(len(ct))
		a, b := ct[i], ct[(i+1)%len(ct)]
		if !openPath || i+1 < len(ct) {
			mid := hc.P2{X: (a.X + b.X) / 2, Y: (a.Y + b.Y) / 2}
			if a != b && (mid.X-a.X)*(b.Y-a.Y) == (mid.Y-a.Y)*(b.X-a.X) { // exactly on the segment in float64
				var bd bool
				if msg := hc.Try(func() { _, bd = P.Windings(mid.X, mid.Y) }); msg == "" && !bd {
					c.Fail("boundary-not-reported", fmt.Sprintf("point (%v,%v) lies on the path but is not reported as boundary", mid.X, mid.Y), map[string]any{"P": P.String(), "point": []float64{mid.X, mid.Y}})
				}
				c.Count("on-boundary-probe")
			}
		}
	}

	// 3. curved paths: winding number of an independent fine flattening, points well off the path
	for it := 0; it < c.N; it++ {
		P0 := c.GenPath([]string{"LQ", "LC", "LQCA", "A", "QC"}[c.Intn(5)], 5, 2)
		openIn := c.Chance(0.1)
		P := &canvas.Path{}
		for _, sp := range P0.Split() { // close every subpath (Split is only used to build the input)
			if !openIn {
				sp.Close()
			}
			P = P.Append(sp)
		}
		missing := missingClosings(P)
		segs, err := hc.Decode(P.Data())
		if err != nil {
			continue
		}
		var cs [][]hc.P2
		for _, sp := range hc.Subpaths(segs) {
			var ct []hc.P2
			for _, s := range sp {
				if s.Kind == 'M' {
					ct = append(ct, s.End)
					continue
				}
				n := 1
				if s.Kind != 'L' && s.Kind != 'Z' {
					n = 400
				}
				ct = append(ct, hc.SampleSeg(s, n)[1:]...)
			}
			if len(ct) > 1 && ct[0] == ct[len(ct)-1] {
				ct = ct[:len(ct)-1]
			}
			cs = append(cs, ct)
		}
		for k := 0; k < 12; k++ {
			pt := c.SamplePoints(1, cs)[0]
			if k%3 == 0 { // level with a segment end point or an extremum sample
				ct := cs[c.Intn(len(cs))]
				v := ct[c.Intn(len(ct))]
				pt = hc.P2{X: v.X - c.Range(0.5, 6), Y: v.Y}
			}
			d := hc.DistToContours(pt, cs)
			if d < 1e-3 {
				c.Count("curved-point-in-band")
				continue
			}
			// cause class: the ray is exactly level with a segment end point to its right
			osfx := ""
			if rayMeetsMissingClose(pt, missing) {
				osfx = "+open"
			}
			for _, sg := range segs {
				if sg.End.Y == pt.Y && sg.End.X >= pt.X {
					osfx = "+level-with-endpoint" + osfx
					c.Count("curved-query-level-with-endpoint")
					if tangentInLevelEndpoint(pt, segs) {
						// residue of 4ad4af8: the curve is tangent to the ray in the end point on the ray
						osfx = "+level-with-endpoint+tangent-in-endpoint" + strings.TrimPrefix(osfx, "+level-with-endpoint")
						c.Count("curved-query-tangent-in-level-endpoint")
					}
					break
				}
			}
			if !strings.Contains(osfx, "+level-with-endpoint") && cubicDiscriminantSnapped(pt, segs) {
				osfx = "+cubic-discriminant-snapped" + osfx
				c.Count("curved-query-cubic-discriminant-snapped")
			} else if !strings.Contains(osfx, "+level-with-endpoint") && tangentExtremum(pt, segs) {
				osfx = "+tangent-at-extremum" + osfx
				c.Count("curved-query-tangent-at-extremum")
			}
			c.Evals++
			var w int
			var bd bool
			if msg := hc.Try(func() { w, bd = P.Windings(pt.X, pt.Y) }); msg != "" {
				c.Fail("panic:Windings-curved"+osfx, "Windings panicked: "+strings.SplitN(msg, "\n", 2)[0], map[string]any{"P": P.String(), "point": []float64{pt.X, pt.Y}})
				continue
			}
			// a ray passing within 1e-6 of a vertex of the sampled polyline is a tangent/extremum
			// situation where the polyline's own count is unreliable: skip
			if nearLevel(pt, cs, 1e-6) && k%3 != 0 {
				c.Count("curved-near-level")
			}
			wf := hc.WnFloat(pt, cs)
			if bd {
				c.Fail("boundary-reported-off-boundary-curved"+osfx, fmt.Sprintf("point (%v,%v) is %.3g away from the path but reported as boundary", pt.X, pt.Y, d), map[string]any{"P": P.String(), "point": []float64{pt.X, pt.Y}})
			} else if w != wf {
				c.Fail("windings-curved"+osfx, fmt.Sprintf("Windings(%v,%v)=%d but the winding number of a 400-step flattening is %d", pt.X, pt.Y, w, wf), map[string]any{"P": P.String(), "point": []float64{pt.X, pt.Y}})
			}
			c.Count("curved-query")
			c.Distinct(P.String())
		}
		// CCW on simple contours: sign of the area of the flattening (only convex-ish single arcs/ellipses)
	}

	// 3b. rays exactly tangent to the inside of a curved segment (regression class of b6be64d): domes
	//     whose Bézier has its y-extremum at t = 1/2 at an exactly representable height
	runTangent(c)

	// 2b. flat polygons with a vertex a tiny distance off the ray (regression class of 84dad99: a vertex
	//     within Epsilon of the ray lies on it for both adjoining segments)
	runNearLevel(c)

	// 3d. one integer cubic (or quad) closed by a line, ray exactly level with an end point of the
	//     curve (regression class of 4ad4af8: the end point's root is divided out, not computed)
	runLevelEndpoint(c)

	// 3c. recorded inputs of repaired curve defects (regression corpus)
	runCorpus(c)

	// 4a. Filling with an enclosing contour inside the inner contour's (loose) FastBounds box
	runHugging(c)

	// 4. CCW and Filling on simple nested shapes
	for it := 0; it < c.N; it++ {
		r := float64(2 + c.Intn(5))
		shapes := []*canvas.Path{canvas.Circle(r), canvas.Ellipse(r, r/2), canvas.Rectangle(r, r+1), canvas.RegularPolygon(3+c.Intn(6), r, true), canvas.StarPolygon(5, r, r/2.5, true),
			pieSlice(c, r), twoArcCircle(c, r), blob(c, r), blob(c, r)}
		p := shapes[c.Intn(len(shapes))]
		if c.Bool() {
			p = p.Reverse()
		}
		switch c.Intn(4) {
		case 0: // as constructed: the start point is an extreme point of the shape (Circle starts at its right-most point)
			c.Count("ccw:untransformed")
		case 1:
			p = p.Transform(canvas.Identity.Rotate(float64(c.Intn(4)) * 90).Translate(float64(c.Intn(9)-4), float64(c.Intn(9)-4)))
			c.Count("ccw:quarter-turns")
		default:
			p = p.Transform(canvas.Identity.Rotate(c.Range(0, 360)).Translate(c.GenCoord(), c.GenCoord()))
		}
		c.Evals++
		fl, _ := hc.Contours(p.Flatten(0.001))
		if len(fl) != 1 {
			continue
		}
		area := hc.Area(fl[0])
		var ccw bool
		if msg := hc.Try(func() { ccw = p.CCW() }); msg != "" {
			c.Fail("panic:CCW", "CCW panicked: "+msg, map[string]any{"P": p.String()})
			continue
		}
		if ccw != (area > 0) {
			c.Fail("ccw-sign", fmt.Sprintf("CCW()=%v but the signed area is %g", ccw, area), map[string]any{"P": p.String()})
		}
		c.Count("ccw")
		// Filling: an inner copy (same or opposite direction) inside the outer one; or the shape itself
		// as the inner contour of a rectangle that hugs its exact bounds (an outer contour much
		// tighter than the control-point / full-ellipse box of the curved inner one)
		outer := p
		inner := p.Copy().Transform(canvas.Identity.ScaleAbout(0.3, 0.3, fl[0][0].X*0+centroid(fl[0]).X, centroid(fl[0]).Y))
		if c.Bool() {
			inner = inner.Reverse()
		}
		if c.Chance(0.4) {
			x0, y0, x1, y1 := math.Inf(1), math.Inf(1), math.Inf(-1), math.Inf(-1)
			for _, v := range fl[0] {
				x0, y0, x1, y1 = math.Min(x0, v.X), math.Min(y0, v.Y), math.Max(x1, v.X), math.Max(y1, v.Y)
			}
			mg := c.Range(0.02, 0.15) * math.Max(x1-x0, y1-y0)
			outer = &canvas.Path{}
			outer.MoveTo(x0-mg, y0-mg)
			outer.LineTo(x1+mg, y0-mg)
			outer.LineTo(x1+mg, y1+mg)
			outer.LineTo(x0-mg, y1+mg)
			outer.Close()
			if c.Bool() {
				outer = outer.Reverse()
			}
			inner = p
			c.Count("filling:hugging-rectangle")
		}
		fo, _ := hc.Contours(outer.Flatten(0.001))
		area = hc.Area(fo[0])
		// construction check, independent of the library: the inner contour lies strictly inside the
		// outer one (a scaled copy of a notched blob about its vertex centroid need not)
		if fiChk, _ := hc.Contours(inner.Flatten(0.001)); len(fiChk) == 1 {
			inside := true
			for _, v := range fiChk[0] {
				if hc.WnFloat(v, fo) == 0 || hc.DistToContours(v, fo) < 1e-3 {
					inside = false
					break
				}
			}
			if !inside {
				c.Count("filling:construction-rejected")
				continue
			}
		}
		both := outer.Copy().Append(inner)
		for rule := 0; rule < 4; rule++ {
			var f []bool
			if msg := hc.Try(func() { f = both.Filling(canvas.FillRule(rule)) }); msg != "" {
				// Filling casts its rays from the start vertex of each subpath: the recorded near-level
				// defect of windings() applies when a vertex of the other subpath is within the band of
				// that level without being exactly level
				kind := "panic:Filling:" + strings.SplitN(msg, "\n", 2)[0]
				fi, _ := hc.Contours(inner.Flatten(0.001))
				if (len(fi) > 0 && len(fi[0]) > 0 && illConditioned(fi[0][0], fo)) || (len(fo[0]) > 0 && illConditioned(fo[0][0], fi)) {
					kind += "+near-level"
				}
				c.Fail(kind, "Filling panicked: "+msg, map[string]any{"P": both.String()})
				break
			}
			wOuter := 1
			if area < 0 {
				wOuter = -1
			}
			fi, _ := hc.Contours(inner.Flatten(0.001))
			wInner := wOuter + 1
			if hc.Area(fi[0]) < 0 {
				wInner = wOuter - 1
			}
			exp := []bool{fills(rule, wOuter), fills(rule, wInner)}
			if len(f) != 2 || f[0] != exp[0] || f[1] != exp[1] {
				kind := "filling"
				if (len(fi[0]) > 0 && illConditioned(fi[0][0], fo)) || (len(fo[0]) > 0 && illConditioned(fo[0][0], fi)) {
					kind += "+near-level" // the ray from a start vertex passes within the band of a vertex of the other subpath
				}
				c.Fail(kind, fmt.Sprintf("Filling(%d)=%v, expected %v (windings %d and %d)", rule, f, exp, wOuter, wInner), map[string]any{"P": both.String(), "rule": rule})
			}
			c.Count("filling")
		}
	}
}

// flatClass names the situation of a failing flat query: open input, or the ray running along a
// horizontal edge (a cause predicate decidable from the input, part of the known-finding key).
func flatClass(p hc.P2, cs [][]hc.P2, open bool) string {
	s := ""
	for _, c := range cs {
		for i := range c {
			a, b := c[i], c[(i+1)%len(c)]
			if a.Y == p.Y && b.Y == p.Y && math.Max(a.X, b.X) >= p.X {
				s = "+ray-along-horizontal-edge"
			}
		}
	}
	if coincidentHits(p, cs) {
		// the recorded start-vertex defect takes precedence: by windings_refines_wn_partial a closed flat
		// subpath can only be misjudged when its start vertex lies on the ray
		s = "+coincident-hits"
	}
	if open {
		s += "+open"
	}
	return s
}

// coincidentHits: a vertex lying exactly on the ray is also touched by another edge or vertex of the
// path at the same place (then the two end-point hits of that vertex are not adjacent in the sorted
// intersection list, which windings() assumes).
func coincidentHits(p hc.P2, cs [][]hc.P2) bool { return coincidence(p, cs) == 2 }

// coincidence (regression class since 847036a): 0 = no vertex on the ray is touched by anything else; 2 = such a coincidence happens
// at the x of a subpath's START vertex lying on the ray (its two end-point hits are the first and
// the last hit of the subpath in path order, so every other hit with the same x sorts between them:
// the recorded defect); 1 = coincidences only elsewhere (there the stable sort keeps each vertex's
// two end-point hits adjacent and the library is right: a failure in this class is NOT known).
func coincidence(p hc.P2, cs [][]hc.P2) int {
	type edge struct{ a, b hc.P2 }
	res := 0
	var es []edge
	for _, c := range cs {
		for i := range c {
			es = append(es, edge{c[i], c[(i+1)%len(c)]})
		}
	}
	for _, c := range cs {
		for _, v := range c {
			if v.Y != p.Y || v.X < p.X {
				continue
			}
			n := 0
			for _, e := range es {
				d := e.b.Sub(e.a)
				if d.Cross(v.Sub(e.a)) == 0 && v.Sub(e.a).Dot(d) >= 0 && v.Sub(e.b).Dot(d) <= 0 {
					n++
				}
			}
			if n > 2 { // more than its own two incident edges
				for _, c2 := range cs {
					if len(c2) > 0 && c2[0].Y == p.Y && c2[0].X == v.X {
						return 2
					}
				}
				res = 1
			}
		}
	}
	return res
}

// illConditioned: the ray passes within the tolerance band of a vertex without being exactly level
// with it (then "crosses / touches / runs along" is not decidable within the library's Epsilon).
func illConditioned(p hc.P2, cs [][]hc.P2) bool {
	for _, c := range cs {
		for _, v := range c {
			if v.Y != p.Y && math.Abs(v.Y-p.Y) < band && v.X >= p.X-band {
				return true
			}
		}
	}
	return false
}

// simple curved contours whose right-most point is NOT a vertex (orientation judged by area sign)

// pieSlice: centre -> rim -> arc of more than half a turn -> back; the bulge faces a random direction
func pieSlice(c *hc.Ctx, r float64) *canvas.Path {
	a0 := c.Range(0, 2*math.Pi)
	ext := c.Range(math.Pi*1.05, math.Pi*1.9)
	p := &canvas.Path{}
	p.MoveTo(0, 0)
	p.LineTo(r*math.Cos(a0), r*math.Sin(a0))
	p.ArcTo(r, r, 0, true, true, r*math.Cos(a0+ext), r*math.Sin(a0+ext))
	p.Close()
	return p
}

// twoArcCircle: a circle made of two arcs whose joints sit at arbitrary angles
func twoArcCircle(c *hc.Ctx, r float64) *canvas.Path {
	a0 := c.Range(0, 2*math.Pi)
	a1 := a0 + c.Range(0.3, 2*math.Pi-0.3)
	p := &canvas.Path{}
	p.MoveTo(r*math.Cos(a0), r*math.Sin(a0))
	large := a1-a0 > math.Pi
	p.ArcTo(r, r, 0, large, true, r*math.Cos(a1), r*math.Sin(a1))
	p.ArcTo(r, r, 0, !large, true, r*math.Cos(a0), r*math.Sin(a0))
	p.Close()
	return p
}

// blob: smooth star-shaped closed curve of quadratic Beziers (control points on a wavy polar curve,
// joints at the midpoints), sometimes with a few straight notches
func blob(c *hc.Ctx, r float64) *canvas.Path {
	n := 5 + c.Intn(6)
	pts := make([]hc.P2, n)
	ph := c.Range(0, 2*math.Pi)
	for i := range pts {
		a := ph + 2*math.Pi*float64(i)/float64(n)
		rr := r * c.Range(0.6, 1.3)
		pts[i] = hc.P2{X: rr * math.Cos(a), Y: rr * math.Sin(a)}
	}
	mid := func(i int) hc.P2 {
		a, b := pts[i%n], pts[(i+1)%n]
		return hc.P2{X: (a.X + b.X) / 2, Y: (a.Y + b.Y) / 2}
	}
	p := &canvas.Path{}
	m0 := mid(n - 1)
	p.MoveTo(m0.X, m0.Y)
	for i := 0; i < n; i++ {
		m := mid(i)
		if c.Chance(0.15) {
			p.LineTo(pts[i].X*0.5, pts[i].Y*0.5) // notch towards the centre
			p.LineTo(m.X, m.Y)
		} else {
			p.QuadTo(pts[i].X, pts[i].Y, m.X, m.Y)
		}
	}
	p.Close()
	return p
}

func fills(rule, w int) bool {
	switch rule {
	case 0:
		return w != 0
	case 1:
		return w%2 != 0
	case 2:
		return w > 0
	}
	return w < 0
}

func centroid(c []hc.P2) hc.P2 {
	var s hc.P2
	for _, v := range c {
		s.X += v.X
		s.Y += v.Y
	}
	return hc.P2{X: s.X / float64(len(c)), Y: s.Y / float64(len(c))}
}

func nearLevel(p hc.P2, cs [][]hc.P2, eps float64) bool {
	for _, c := range cs {
		for _, v := range c {
			if math.Abs(v.Y-p.Y) < eps && v.X > p.X {
				return true
			}
		}
	}
	return false
}

// crossingsFloat counts the edges whose interior the rightward ray crosses; -1 if the ray passes
// through a vertex or along an edge (then the count is convention dependent and not judged).
func crossingsFloat(p hc.P2, cs [][]hc.P2) int {
	n := 0
	for _, c := range cs {
		for i := range c {
			a, b := c[i], c[(i+1)%len(c)]
			if a.Y == p.Y && a.X >= p.X || b.Y == p.Y && b.X >= p.X {
				return -1
			}
			if (a.Y < p.Y) != (b.Y < p.Y) {
				x := a.X + (p.Y-a.Y)/(b.Y-a.Y)*(b.X-a.X)
				if x > p.X {
					n++
				}
			}
		}
	}
	return n
}

// tangentExtremum: the ray is tangent to a curved segment at an interior point: some curved segment
// has an interior y-extremum at the ray's height (within 1e-9) to the right of the query point.
func tangentExtremum(p hc.P2, segs []hc.Seg) bool {
	const n = 512
	for _, sg := range segs {
		if sg.Kind != 'Q' && sg.Kind != 'C' && sg.Kind != 'A' {
			continue
		}
		prev := sg.At(0)
		cur := sg.At(1.0 / n)
		for i := 1; i < n; i++ {
			next := sg.At(float64(i+1) / n)
			if (cur.Y-prev.Y)*(next.Y-cur.Y) <= 0 {
				// bracketed extremum of y(t): ternary search on [t(i-1), t(i+1)]
				lo, hi := float64(i-1)/n, float64(i+1)/n
				sign := 1.0 // maximise sign*y
				if cur.Y < prev.Y || cur.Y < next.Y {
					sign = -1
				}
				for k := 0; k < 100; k++ {
					m1, m2 := lo+(hi-lo)/3, hi-(hi-lo)/3
					if sign*sg.At(m1).Y < sign*sg.At(m2).Y {
						lo = m1
					} else {
						hi = m2
					}
				}
				e := sg.At((lo + hi) / 2)
				if math.Abs(e.Y-p.Y) <= 1e-9 && e.X >= p.X-1e-9 && lo > 1e-9 && hi < 1-1e-9 {
					return true
				}
			}
			prev, cur = cur, next
		}
	}
	return false
}

func runTangent(c *hc.Ctx) {
	for it := 0; it < c.N/3+1; it++ {
		x0, y0 := float64(c.Intn(9)-4), float64(c.Intn(9)-4)
		w := float64(2 + c.Intn(6))
		k := float64(1+c.Intn(4)) * float64(2*c.Intn(2)-1) // height of the dome, up or down
		P := &canvas.Path{}
		P.MoveTo(x0, y0)
		if c.Bool() {
			P.QuadTo(x0+w*c.Range(0.2, 0.8), y0+2*k, x0+w, y0) // extremum y0+k at t = 1/2
		} else {
			P.CubeTo(x0+w*c.Range(0, 0.4), y0+4*k, x0+w*c.Range(0.6, 1), y0+4*k, x0+w, y0)
		}
		d := float64(1 + c.Intn(3))
		if k > 0 {
			d = -d
		}
		P.LineTo(x0+w, y0+d)
		P.LineTo(x0, y0+d)
		P.Close()
		if c.Bool() {
			P = P.Reverse()
		}
		segs, err := hc.Decode(P.Data())
		if err != nil {
			continue
		}
		var ct []hc.P2
		for _, sg := range segs {
			switch sg.Kind {
			case 'M':
				ct = append(ct, sg.End)
			case 'L', 'Z':
				ct = append(ct, sg.End)
			default:
				ct = append(ct, hc.SampleSeg(sg, 400)[1:]...)
			}
		}
		if len(ct) > 1 && ct[0] == ct[len(ct)-1] {
			ct = ct[:len(ct)-1]
		}
		cs := [][]hc.P2{ct}
		// the extremum of the curved segment
		var ext hc.P2
		found := false
		for _, sg := range segs {
			if sg.Kind == 'Q' || sg.Kind == 'C' {
				ext = sg.At(0.5)
				found = true
			}
		}
		if !found {
			continue
		}
		for _, dx := range []float64{c.Range(0.5, 3), w + c.Range(0.5, 3)} {
			pt := hc.P2{X: ext.X - dx, Y: ext.Y}
			if hc.DistToContours(pt, cs) < 1e-3 {
				continue
			}
			sfx := ""
			if tangentExtremum(pt, segs) {
				sfx = "+tangent-at-extremum"
				c.Count("curved-query-tangent-at-extremum")
			} else {
				c.Count("tangent-dome: extremum not exact")
			}
			c.Evals++
			var w2 int
			var bd bool
			if msg := hc.Try(func() { w2, bd = P.Windings(pt.X, pt.Y) }); msg != "" {
				c.Fail("panic:Windings-curved"+sfx, "Windings panicked: "+firstLine(msg), map[string]any{"P": P.String(), "point": []float64{pt.X, pt.Y}})
				continue
			}
			wf := hc.WnFloat(pt, cs)
			if bd {
				c.Fail("boundary-reported-off-boundary-curved"+sfx, fmt.Sprintf("point (%v,%v) is off the path but reported as boundary", pt.X, pt.Y), map[string]any{"P": P.String(), "point": []float64{pt.X, pt.Y}})
			} else if w2 != wf {
				c.Fail("windings-curved"+sfx, fmt.Sprintf("Windings(%v,%v)=%d but the winding number of a 400-step flattening is %d (ray tangent to the dome)", pt.X, pt.Y, w2, wf), map[string]any{"P": P.String(), "point": []float64{pt.X, pt.Y}})
			}
			c.Count("tangent-dome query")
		}
		c.Distinct(P.String())
	}
}

// cubicDiscriminantSnapped: for some cubic segment the equation y(t) = p.Y has a depressed form
// t^3 + c1 t + c0 whose discriminant -(4 c1^3 + 27 c0^2) is below Epsilon in absolute terms but not
// relative to its two terms: solveCubicFormula then takes the double-root branch although the roots
// are apart (cause predicate of C06-cubic-close-roots-snapped, decided from the input alone).
func cubicDiscriminantSnapped(p hc.P2, segs []hc.Seg) bool {
	const eps = 1e-10
	for _, sg := range segs {
		if sg.Kind != 'C' {
			continue
		}
		y0, y1, y2, y3 := sg.P0.Y, sg.P1.Y, sg.P2.Y, sg.End.Y
		a := y3 - y0 + 3*y1 - 3*y2
		b := 3*y0 - 6*y1 + 3*y2
		cc := 3*y1 - 3*y0
		d := y0 - p.Y
		if math.Abs(a) < 1e-9 {
			continue
		}
		b, cc, d = b/a, cc/a, d/a
		bt := b / 3
		c0 := d - bt*(cc-2*bt*bt)
		c1 := cc - b*bt
		if math.Abs(c0) <= eps || math.Abs(c1) <= eps {
			continue
		}
		delta := -(4*c1*c1*c1 + 27*c0*c0)
		if math.Abs(delta) <= eps && math.Abs(delta) > eps*(4*math.Abs(c1*c1*c1)+27*c0*c0) {
			return true
		}
	}
	return false
}

// runCorpus replays the recorded inputs of repaired defects of the curved branch against the
// flattening oracle (every run, every tier); the kinds are the regression classes of the findings.
func runCorpus(c *hc.Ctx) {
	for _, tc := range []struct {
		p    string
		x, y float64
	}{
		// C06-cubic-close-roots-snapped (83d4227)
		{"M11.634 5C-2 -15.03 -13.351 1 -6 -11.831L0.08 8.02z", -7.514589724807222, -6.1263400878906245},
		{"M7 16.502L6.066 3L-17.536 4L-1 10.012L5.603 -9L-2 -8.952zM-7.25 -2C10 4 5.12 -16.098 8 16.162Q-9 9.75 19.659 5L-3.22 6z", 0.9887427439375109, -2.7794263373749994},
		// C06-curved-tangent-extremum-counted (b6be64d)
		{"M-1 1.25L-2 5Q9.491 -14.513 7.75 19.326Q-7 -19.664 -19.171 9Q-10 0 9 7z", -9.816829517709891, 3.9375},
		{"M-2.667 2.107Q-14.083 10 0 12.865L-10 4.587L-0.226 -6L-1 -1.8zM-6 10Q-4 -7.817 -8 10Q0.25 8.5 7 3z", -10.795673112691347, 1.0915},
	} {
		P, err := canvas.ParseSVGPath(tc.p)
		if err != nil {
			c.Fail("corpus-parse", err.Error(), tc.p)
			continue
		}
		segs, err := hc.Decode(P.Data())
		if err != nil {
			continue
		}
		var cs [][]hc.P2
		for _, sp := range hc.Subpaths(segs) {
			var ct []hc.P2
			for _, sg := range sp {
				if sg.Kind == 'M' || sg.Kind == 'L' || sg.Kind == 'Z' {
					ct = append(ct, sg.End)
				} else {
					ct = append(ct, hc.SampleSeg(sg, 400)[1:]...)
				}
			}
			if len(ct) > 1 && ct[0] == ct[len(ct)-1] {
				ct = ct[:len(ct)-1]
			}
			cs = append(cs, ct)
		}
		pt := hc.P2{X: tc.x, Y: tc.y}
		sfx := ""
		if cubicDiscriminantSnapped(pt, segs) {
			sfx = "+cubic-discriminant-snapped"
		} else if tangentExtremum(pt, segs) {
			sfx = "+tangent-at-extremum"
		}
		c.Evals++
		var w int
		var bd bool
		if msg := hc.Try(func() { w, bd = P.Windings(pt.X, pt.Y) }); msg != "" {
			c.Fail("panic:Windings-curved"+sfx, "Windings panicked: "+firstLine(msg), map[string]any{"P": tc.p, "point": []float64{tc.x, tc.y}})
			continue
		}
		if wf := hc.WnFloat(pt, cs); bd || w != wf {
			c.Fail("windings-curved"+sfx, fmt.Sprintf("Windings(%v,%v)=%d boundary=%v but the winding number of a 400-step flattening is %d (recorded input)", tc.x, tc.y, w, bd, wf), map[string]any{"P": tc.p, "point": []float64{tc.x, tc.y}})
		}
		c.Count("corpus curved" + sfx)
	}
}

// missingClosings: for every subpath that does not end in Close, the segment from its last point to
// its first point (which Windings/Crossings/Contains do not intersect with the ray).
func missingClosings(P *canvas.Path) [][2]hc.P2 {
	segs, err := hc.Decode(P.Data())
	if err != nil {
		return nil
	}
	var out [][2]hc.P2
	for _, sp := range hc.Subpaths(segs) {
		if len(sp) < 2 || sp[len(sp)-1].Kind == 'Z' {
			continue
		}
		first, last := sp[0].End, sp[len(sp)-1].End
		if first != last {
			out = append(out, [2]hc.P2{last, first})
		}
	}
	return out
}

// rayMeetsMissingClose: the ray from p towards +x meets one of the missing closing segments
func rayMeetsMissingClose(p hc.P2, missing [][2]hc.P2) bool {
	for _, m := range missing {
		a, b := m[0], m[1]
		if p.Y < math.Min(a.Y, b.Y)-1e-9 || p.Y > math.Max(a.Y, b.Y)+1e-9 {
			continue
		}
		if a.Y == b.Y {
			if math.Max(a.X, b.X) >= p.X-1e-9 {
				return true
			}
			continue
		}
		x := a.X + (p.Y-a.Y)/(b.Y-a.Y)*(b.X-a.X)
		if x >= p.X-1e-9 {
			return true
		}
	}
	return false
}

// tangentInLevelEndpoint: a curved segment has an end point on the ray (to the right of p) and is
// tangent to the ray there (Bézier: the adjacent control point is level with the end point; arcs:
// numerically).
func tangentInLevelEndpoint(p hc.P2, segs []hc.Seg) bool {
	flat := func(a, b hc.P2) bool {
		d := b.Sub(a)
		return d.Len() > 0 && math.Abs(d.Y) <= 1e-5*d.Len()
	}
	for _, sg := range segs {
		var at0, at1 bool
		switch sg.Kind {
		case 'Q':
			at0, at1 = sg.P1.Y == sg.P0.Y, sg.P1.Y == sg.End.Y
		case 'C':
			at0, at1 = sg.P1.Y == sg.P0.Y, sg.P2.Y == sg.End.Y
		case 'A':
			at0, at1 = flat(sg.At(0), sg.At(1e-7)), flat(sg.At(1-1e-7), sg.At(1))
		default:
			continue
		}
		if sg.P0.Y == p.Y && sg.P0.X >= p.X && at0 {
			return true
		}
		if sg.End.Y == p.Y && sg.End.X >= p.X && at1 {
			return true
		}
	}
	return false
}

func runLevelEndpoint(c *hc.Ctx) {
	g := func() float64 { return float64(c.Intn(13) - 6) }
	for it := 0; it < c.N; it++ {
		P := &canvas.Path{}
		P.MoveTo(g(), g())
		if c.Chance(0.8) {
			P.CubeTo(g(), g(), g(), g(), g(), g())
		} else {
			P.QuadTo(g(), g(), g(), g())
		}
		if c.Chance(0.3) {
			P.LineTo(g(), g())
		}
		P.Close()
		segs, err := hc.Decode(P.Data())
		if err != nil {
			continue
		}
		var ct []hc.P2
		var ends []hc.P2
		for _, sg := range segs {
			switch sg.Kind {
			case 'M', 'L', 'Z':
				ct = append(ct, sg.End)
			default:
				ct = append(ct, hc.SampleSeg(sg, 400)[1:]...)
				ends = append(ends, sg.P0, sg.End)
			}
		}
		if len(ends) == 0 {
			continue
		}
		if len(ct) > 1 && ct[0] == ct[len(ct)-1] {
			ct = ct[:len(ct)-1]
		}
		cs := [][]hc.P2{ct}
		for _, e := range ends {
			pt := hc.P2{X: -7.5 - float64(c.Intn(3)), Y: e.Y}
			if hc.DistToContours(pt, cs) < 1e-3 {
				continue
			}
			sfx := "+level-with-endpoint"
			if tangentInLevelEndpoint(pt, segs) {
				sfx += "+tangent-in-endpoint"
				c.Count("curved-query-tangent-in-level-endpoint")
			}
			c.Evals++
			var w int
			var bd bool
			if msg := hc.Try(func() { w, bd = P.Windings(pt.X, pt.Y) }); msg != "" {
				c.Fail("panic:Windings-curved"+sfx, "Windings panicked: "+firstLine(msg), map[string]any{"P": P.String(), "point": []float64{pt.X, pt.Y}})
				continue
			}
			if wf := hc.WnFloat(pt, cs); bd || w != wf {
				c.Fail("windings-curved"+sfx, fmt.Sprintf("Windings(%v,%v)=%d boundary=%v but the winding number of a 400-step flattening is %d (ray level with an end point of the curve)", pt.X, pt.Y, w, bd, wf), map[string]any{"P": P.String(), "point": []float64{pt.X, pt.Y}})
			}
			c.Count("level-endpoint query")
		}
		c.Distinct(P.String())
	}
}

func runNearLevel(c *hc.Ctx) {
	judge := func(P *canvas.Path, cs [][]hc.P2, pt hc.P2) {
		if hc.DistToContours(pt, cs) < 1e-3 {
			return
		}
		c.Evals++
		var w int
		var bd bool
		if msg := hc.Try(func() { w, bd = P.Windings(pt.X, pt.Y) }); msg != "" {
			c.Fail("panic:Windings:"+firstLine(msg)+"+near-level", "Windings panicked: "+firstLine(msg), map[string]any{"P": P.String(), "point": []float64{pt.X, pt.Y}})
			return
		}
		// the point is far from the path: the winding number of the exact polygon is the answer
		if wf := hc.WnFloat(pt, cs); bd || w != wf {
			c.Fail("windings-flat:windings+near-level", fmt.Sprintf("Windings(%v,%v)=%d boundary=%v but the winding number is %d (a vertex lies %.3g off the ray)", pt.X, pt.Y, w, bd, wf, nearestLevel(pt, cs)), map[string]any{"P": P.String(), "point": []float64{pt.X, pt.Y}})
		}
		c.Count("near-level query")
	}
	// the recorded minimal inputs
	for _, tc := range []struct {
		p    string
		x, y float64
	}{
		{"M-2 -6L-2 0L-1 -3z", -3.5, -3 + 1e-12},
		{"M-2 -6L-2 -3L-1 0z", -3.5, -3e-10},
		{"M0 -1L1 0L0 1L5 1L5 -1z", -1, -1e-10},
		{"M-2 2.0000000000000004L-3.6739403974420544e-16 0L2 1.9999999999999996L6.123233995736757e-16 4z", -3, 1.9999999999999996},
	} {
		P := canvas.MustParseSVGPath(tc.p)
		cs, ok := hc.Contours(P)
		if ok {
			judge(P, cs, hc.P2{X: tc.x, Y: tc.y})
		}
	}
	for it := 0; it < c.N; it++ {
		var pool []hc.P2
		P := c.GenPolygon([]int{0, 0, 3}[c.Intn(3)], &pool, true)
		cs, ok := hc.Contours(P)
		if !ok || len(cs) == 0 || len(cs[0]) == 0 {
			continue
		}
		for k := 0; k < 6; k++ {
			ct := cs[c.Intn(len(cs))]
			if len(ct) == 0 {
				continue
			}
			v := ct[c.Intn(len(ct))]
			d := []float64{1e-12, 3e-11, 1e-10, 3e-10, 1e-13, 2e-16 * math.Max(1, math.Abs(v.Y))}[c.Intn(6)]
			if c.Bool() {
				d = -d
			}
			judge(P, cs, hc.P2{X: v.X - float64(1+c.Intn(6)) + 0.5, Y: v.Y + d})
		}
		c.Distinct(P.String())
	}
}

func nearestLevel(p hc.P2, cs [][]hc.P2) float64 {
	best := math.Inf(1)
	for _, ct := range cs {
		for _, v := range ct {
			if d := math.Abs(v.Y - p.Y); d < best && v.X >= p.X {
				best = d
			}
		}
	}
	return best
}
