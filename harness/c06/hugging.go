package main

// Filling on an enclosing contour that hugs the EXACT extent of a curved inner contour whose
// FastBounds (control-point box / whole-ellipse box with radius max(rx,ry)) is much larger: the
// enclosing contour lies inside the inner contour's FastBounds box. Any shortcut that reasons with
// FastBounds as if it were exact ("j's box lies within i's box, so j cannot enclose i") is wrong here.

import (
	"fmt"
	"math"

	"github.com/tdewolff/canvas"
	"verifharness/hc"
)

// inflatedInner: simple closed curved shapes whose FastBounds is loose on all four sides
func inflatedInner(c *hc.Ctx, r float64) (*canvas.Path, string) {
	p := &canvas.Path{}
	switch c.Intn(5) {
	case 0:
		// circular segment of a large circle: short arc + chord
		R := r * c.Range(2, 6)
		a0 := c.Range(0, 2*math.Pi)
		ext := c.Range(0.35, 1.7)
		p.MoveTo(R*math.Cos(a0), R*math.Sin(a0))
		p.ArcTo(R, R, 0, false, true, R*math.Cos(a0+ext), R*math.Sin(a0+ext))
		p.Close()
		return p, "circular-segment"
	case 1:
		// slender ellipse turned away from the axes (phi != 0: the box uses max(rx,ry) all around)
		q := canvas.Ellipse(r, r*c.Range(0.15, 0.5))
		return q.Transform(canvas.Identity.Rotate(c.Range(20, 70) + 90*float64(c.Intn(4)))), "rotated-ellipse"
	case 2:
		// cubic blob: control points far outside the curve
		n := 3 + c.Intn(3)
		ph := c.Range(0, 2*math.Pi)
		k := c.Range(1.8, 3.0)
		d := 2 * math.Pi / float64(n)
		p.MoveTo(r*math.Cos(ph), r*math.Sin(ph))
		for i := 0; i < n; i++ {
			a := ph + d*float64(i)
			p.CubeTo(k*r*math.Cos(a+d/3), k*r*math.Sin(a+d/3), k*r*math.Cos(a+2*d/3), k*r*math.Sin(a+2*d/3), r*math.Cos(a+d), r*math.Sin(a+d))
		}
		p.Close()
		return p, "cubic-blob"
	case 3:
		// pie slice of less than half a turn: the arc misses most axis extremes of its circle
		a0 := c.Range(0, 2*math.Pi)
		ext := c.Range(0.4, 2.6)
		p.MoveTo(0, 0)
		p.LineTo(r*math.Cos(a0), r*math.Sin(a0))
		p.ArcTo(r, r, 0, false, true, r*math.Cos(a0+ext), r*math.Sin(a0+ext))
		p.Close()
		return p, "pie-slice"
	default:
		// lens: two short arcs of large circles
		R := r * c.Range(2, 5)
		h := r
		p.MoveTo(-h, 0)
		p.ArcTo(R, R, 0, false, true, h, 0)
		p.ArcTo(R, R, 0, false, true, -h, 0)
		p.Close()
		return p, "lens"
	}
}

func rectContains(a, b canvas.Rect) bool {
	return a.X0 <= b.X0 && b.X1 <= a.X1 && a.Y0 <= b.Y0 && b.Y1 <= a.Y1
}

func runHugging(c *hc.Ctx) {
	for it := 0; it < c.N; it++ {
		r := float64(2 + c.Intn(5))
		inner, cls := inflatedInner(c, r)
		if c.Bool() {
			inner = inner.Reverse()
		}
		switch c.Intn(3) {
		case 0:
		case 1:
			inner = inner.Transform(canvas.Identity.Rotate(float64(c.Intn(4)) * 90).Translate(float64(c.Intn(9)-4), float64(c.Intn(9)-4)))
		default:
			inner = inner.Transform(canvas.Identity.Rotate(c.Range(0, 360)).Translate(c.GenCoord(), c.GenCoord()))
		}
		fi, _ := hc.Contours(inner.Flatten(0.0005))
		if len(fi) != 1 || len(fi[0]) < 3 {
			continue
		}
		// support polygon of the inner contour in k directions, pushed out by a small margin
		x0, y0, x1, y1 := math.Inf(1), math.Inf(1), math.Inf(-1), math.Inf(-1)
		for _, v := range fi[0] {
			x0, y0, x1, y1 = math.Min(x0, v.X), math.Min(y0, v.Y), math.Max(x1, v.X), math.Max(y1, v.Y)
		}
		size := math.Max(x1-x0, y1-y0)
		mg := c.Range(0.005, 0.05) * size
		outer := &canvas.Path{}
		ocls := "exact-bounds-rectangle"
		if c.Chance(0.5) {
			outer.MoveTo(x0-mg, y0-mg)
			outer.LineTo(x1+mg, y0-mg)
			outer.LineTo(x1+mg, y1+mg)
			outer.LineTo(x0-mg, y1+mg)
			outer.Close()
		} else {
			// intersection of the half planes n_k·x <= max n_k·v + mg over k directions: its vertices are
			// the intersections of consecutive support lines
			ocls = "support-polygon"
			k := []int{8, 12, 16}[c.Intn(3)]
			hs := make([]float64, k)
			for j := 0; j < k; j++ {
				a := 2 * math.Pi * float64(j) / float64(k)
				m := math.Inf(-1)
				for _, v := range fi[0] {
					m = math.Max(m, v.X*math.Cos(a)+v.Y*math.Sin(a))
				}
				hs[j] = m + mg
			}
			for j := 0; j < k; j++ {
				a1 := 2 * math.Pi * float64(j) / float64(k)
				a2 := 2 * math.Pi * float64((j+1)%k) / float64(k)
				// solve [cos a1 sin a1; cos a2 sin a2] x = [h1 h2]
				det := math.Cos(a1)*math.Sin(a2) - math.Sin(a1)*math.Cos(a2)
				x := (hs[j]*math.Sin(a2) - math.Sin(a1)*hs[(j+1)%k]) / det
				y := (math.Cos(a1)*hs[(j+1)%k] - hs[j]*math.Cos(a2)) / det
				if j == 0 {
					outer.MoveTo(x, y)
				} else {
					outer.LineTo(x, y)
				}
			}
			outer.Close()
		}
		if c.Bool() {
			outer = outer.Reverse()
		}
		fo, _ := hc.Contours(outer)
		if len(fo) != 1 || len(fo[0]) < 3 {
			continue
		}
		// the inner contour must lie strictly inside the outer one (construction check, independent of the library)
		inside := true
		for _, v := range fi[0] {
			if hc.WnFloat(v, fo) == 0 || hc.DistToContours(v, fo) < mg/4 {
				inside = false
				break
			}
		}
		if !inside {
			c.Count("hugging:construction-rejected")
			continue
		}
		c.Count("hugging inner:" + cls)
		c.Count("hugging outer:" + ocls)
		if rectContains(inner.FastBounds(), outer.FastBounds()) {
			c.Count("hugging:outer-box-inside-inner-FastBounds")
		} else {
			c.Count("hugging:outer-box-not-inside-inner-FastBounds")
		}
		aO, aI := hc.Area(fo[0]), hc.Area(fi[0])
		wOuter := 1
		if aO < 0 {
			wOuter = -1
		}
		wInner := wOuter + 1
		if aI < 0 {
			wInner = wOuter - 1
		}
		order := c.Bool()
		both := outer.Copy().Append(inner)
		if order {
			both = inner.Copy().Append(outer)
		}
		for rule := 0; rule < 4; rule++ {
			c.Evals++
			var f []bool
			nl := (illConditioned(fi[0][0], fo)) || (illConditioned(fo[0][0], fi))
			if msg := hc.Try(func() { f = both.Filling(canvas.FillRule(rule)) }); msg != "" {
				kind := "panic:Filling:" + firstLine(msg)
				if nl {
					kind += "+near-level"
				}
				c.Fail(kind, "Filling panicked: "+msg, map[string]any{"P": both.String()})
				break
			}
			exp := []bool{fills(rule, wOuter), fills(rule, wInner)}
			if order {
				exp[0], exp[1] = exp[1], exp[0]
			}
			if len(f) != 2 || f[0] != exp[0] || f[1] != exp[1] {
				kind := "filling"
				if nl {
					kind += "+near-level"
				}
				c.Fail(kind, fmt.Sprintf("Filling(%d)=%v, expected %v (windings %d and %d; enclosing contour hugs the inner %s)", rule, f, exp, wOuter, wInner, cls), map[string]any{"P": both.String(), "rule": rule})
			}
			c.Count("filling")
		}
		c.Distinct(both.String())
	}
}

func firstLine(s string) string {
	for i := 0; i < len(s); i++ {
		if s[i] == '\n' {
			return s[:i]
		}
	}
	return s
}
