package main

// C03 — flattening approximates every curve within the requested tolerance.
//
//  1. L1 correspondence of the generated Bézier definitions (split/pos/elevation) the theorems use.
//  2. L2 correspondence: the Lean models of flattenQuadraticBezier ('=', bit exact),
//     flattenSmoothCubicBezier / flattenCubicBezier / circular flattenEllipticArc ('~', Cbrt/Acos/Sincos),
//     findInflectionPointsCubicBezier, and the structural signature of Path.Flatten (replace driver).
//  3. Oracles on the real code (independent evaluation through hc.Decode / Seg.At):
//     Flatten(t): only straight segments, same subpaths / start / end / closedness; every vertex within
//     t of the curve and in curve order; curve -> polyline distance <= C*t; error -> 0 as t -> 0.
//     ReplaceArcs: relative error of the cubic replacement. XMonotone: same geometry, x-monotone pieces.

import (
	"fmt"
	"math"
	"strings"

	"github.com/tdewolff/canvas"
	"verifharness/hc"
)

func main() { hc.Main("C03", run) }

func run(c *hc.Ctx) {
	want := func(s string) bool { return c.Only == "" || c.Only == s }
	if want("l1") {
		c.L1Corr(hc.L1Names([]string{"Bezier"}, nil), c.N/2+1)
		c.L1Corr([]string{"Point.Interpolate", "Point.PerpDot", "Point.Sub"}, c.N/4+1)
	}
	if want("quad") {
		corrQuad(c)
	}
	if want("cubic") {
		corrCubic(c)
	}
	if want("arc") {
		corrArc(c)
	}
	if want("sig") {
		corrSig(c)
	}
	if want("xcorr") {
		corrXMono(c)
	}
	if want("accorr") {
		corrArcToCube(c)
	}
	if want("oracle") {
		oracleCurves(c)
	}
	if want("paths") {
		oraclePaths(c)
	}
	if want("arcs") {
		oracleReplaceArcs(c)
	}
	if want("xmono") {
		oracleXMonotone(c)
	}
	if want("struct") {
		oracleStructure(c)
	}
}

var tolerances = []float64{1, 0.1, 0.01, 1e-4}

type pt = canvas.Point

func P(x, y float64) pt { return pt{X: x, Y: y} }

// ---- generators ---------------------------------------------------------------------------------

func genPt(c *hc.Ctx) pt { return P(c.GenCoord(), c.GenCoord()) }

var quadFamilies = []string{"random", "random", "near-collinear", "collinear-overshoot", "hairpin", "closed", "tiny", "huge", "gentle"}

// genQuad returns control points of a quadratic Bézier of the named family.
func genQuad(c *hc.Ctx, fam string) (p0, p1, p2 pt) {
	p0, p1, p2 = genPt(c), genPt(c), genPt(c)
	switch fam {
	case "near-collinear":
		// p1 on the line p0p2 (inside or beyond the chord), displaced sideways a little
		u := c.Range(-0.5, 1.5)
		eps := []float64{1e-3, 1e-6, 1e-9, 0.05}[c.Intn(4)]
		p1 = P(p0.X+(p2.X-p0.X)*u-(p2.Y-p0.Y)*eps, p0.Y+(p2.Y-p0.Y)*u+(p2.X-p0.X)*eps)
	case "collinear-overshoot":
		u := []float64{2, 1.5, -1, 3, -0.5}[c.Intn(5)]
		p1 = P(p0.X+(p2.X-p0.X)*u, p0.Y+(p2.Y-p0.Y)*u)
	case "hairpin":
		// tall thin parabola: chord short compared with the handle
		p2 = P(p0.X+c.Range(-1, 1), p0.Y+c.Range(-1, 1))
		p1 = P(p0.X+c.Range(-1, 1)*30, p0.Y+c.Range(-1, 1)*30)
	case "closed":
		p2 = p0
	case "tiny":
		s := 1e-6
		p1 = P(p0.X+(p1.X-p0.X)*s, p0.Y+(p1.Y-p0.Y)*s)
		p2 = P(p0.X+(p2.X-p0.X)*s, p0.Y+(p2.Y-p0.Y)*s)
	case "huge":
		s := 1e4
		p0, p1, p2 = P(p0.X*s, p0.Y*s), P(p1.X*s, p1.Y*s), P(p2.X*s, p2.Y*s)
	case "gentle":
		// control point near the middle of the chord, moderate bulge: turn < 90 degrees
		m := P((p0.X+p2.X)/2, (p0.Y+p2.Y)/2)
		h := c.Range(-0.45, 0.45)
		p1 = P(m.X-(p2.Y-p0.Y)*h, m.Y+(p2.X-p0.X)*h)
	}
	return
}

var cubicFamilies = []string{"random", "random", "inflection", "cusp", "loop", "near-collinear", "collinear-overshoot", "closed", "p0=p1", "p2=p3", "hairpin", "gentle", "lead-in", "tiny", "huge"}

func genCubic(c *hc.Ctx, fam string) (p0, p1, p2, p3 pt) {
	p0, p1, p2, p3 = genPt(c), genPt(c), genPt(c), genPt(c)
	dx, dy := p3.X-p0.X, p3.Y-p0.Y
	switch fam {
	case "inflection":
		// S shape: control points on opposite sides of the chord
		h := c.Range(0.1, 1.2)
		p1 = P(p0.X+dx/3-dy*h, p0.Y+dy/3+dx*h)
		p2 = P(p0.X+2*dx/3+dy*h*c.Range(0.3, 1.5), p0.Y+2*dy/3-dx*h*c.Range(0.3, 1.5))
	case "cusp":
		// crossing handles of equal reach produce a cusp or a very tight loop
		p1 = P(p3.X+c.Range(-0.01, 0.01), p3.Y+c.Range(0.5, 8))
		p2 = P(p0.X+c.Range(-0.01, 0.01), p0.Y+(p1.Y-p3.Y))
	case "loop":
		p1 = P(p3.X+dx*c.Range(0.5, 2), p3.Y+dy*c.Range(0.5, 2)+c.Range(1, 10))
		p2 = P(p0.X-dx*c.Range(0.5, 2), p0.Y-dy*c.Range(0.5, 2)+c.Range(1, 10))
	case "near-collinear":
		eps := []float64{1e-3, 1e-6, 1e-9, 0.05}[c.Intn(4)]
		u, v := c.Range(-0.5, 1.5), c.Range(-0.5, 1.5)
		p1 = P(p0.X+dx*u-dy*eps, p0.Y+dy*u+dx*eps)
		p2 = P(p0.X+dx*v+dy*eps*c.Range(-1, 1), p0.Y+dy*v-dx*eps*c.Range(-1, 1))
	case "collinear-overshoot":
		u, v := []float64{2, 1.5, -1, 3}[c.Intn(4)], []float64{-1, 0.5, 2, -0.5}[c.Intn(4)]
		p1 = P(p0.X+dx*u, p0.Y+dy*u)
		p2 = P(p0.X+dx*v, p0.Y+dy*v)
	case "closed":
		p3 = p0
	case "p0=p1":
		p1 = p0
	case "p2=p3":
		p2 = p3
	case "hairpin":
		p3 = P(p0.X+c.Range(-1, 1), p0.Y+c.Range(-1, 1))
		a := P(c.Range(-1, 1)*30, c.Range(-1, 1)*30)
		p1 = P(p0.X+a.X, p0.Y+a.Y)
		p2 = P(p3.X+a.X+c.Range(-1, 1), p3.Y+a.Y+c.Range(-1, 1))
	case "lead-in":
		// straight lead-in: p0, p1, p2 nearly collinear (s2 tiny but not zero), p3 well off that line on the
		// same side — the step is governed by the cubic term s3 (the t3 branch of min(t2, t3))
		d := P(c.Range(-1, 1), c.Range(-1, 1))
		if d.X == 0 && d.Y == 0 {
			d = P(1, 0)
		}
		n := P(-d.Y, d.X)
		eps := []float64{1e-2, 1e-3, 1e-5, 1e-8}[c.Intn(4)]
		u, v, w, off := c.Range(2, 6), c.Range(7, 12), c.Range(12, 18), c.Range(3, 12)
		p1 = P(p0.X+u*d.X, p0.Y+u*d.Y)
		p2 = P(p0.X+v*d.X+eps*n.X, p0.Y+v*d.Y+eps*n.Y)
		p3 = P(p0.X+w*d.X+off*n.X, p0.Y+w*d.Y+off*n.Y)
	case "gentle":
		h := c.Range(-0.3, 0.3)
		p1 = P(p0.X+dx/3-dy*h, p0.Y+dy/3+dx*h)
		p2 = P(p0.X+2*dx/3-dy*h, p0.Y+2*dy/3+dx*h)
	case "tiny":
		s := 1e-6
		f := func(q pt) pt { return P(p0.X+(q.X-p0.X)*s, p0.Y+(q.Y-p0.Y)*s) }
		p1, p2, p3 = f(p1), f(p2), f(p3)
	case "huge":
		s := 1e4
		f := func(q pt) pt { return P(q.X*s, q.Y*s) }
		p0, p1, p2, p3 = f(p0), f(p1), f(p2), f(p3)
	}
	return
}

type arcIn struct {
	start        pt
	rx, ry, rot  float64 // rot in degrees, as given to ArcTo
	large, sweep bool
	end          pt
}

var arcFamilies = []string{"circle", "circle", "ellipse", "ellipse", "thin-ellipse", "tiny", "huge", "half", "scaled-up"}

func genArc(c *hc.Ctx, fam string) arcIn {
	a := arcIn{start: genPt(c), end: genPt(c), large: c.Bool(), sweep: c.Bool()}
	a.rx, a.ry = math.Abs(c.GenCoord())+0.5, math.Abs(c.GenCoord())+0.5
	a.rot = float64(c.Intn(24))*15 + c.Range(0, 1)*float64(c.Intn(2))
	switch fam {
	case "circle":
		a.ry = a.rx
	case "thin-ellipse":
		a.ry = a.rx * []float64{1e-1, 1e-2, 1e-3}[c.Intn(3)]
	case "tiny":
		s := 1e-4
		a.end = P(a.start.X+(a.end.X-a.start.X)*s, a.start.Y+(a.end.Y-a.start.Y)*s)
		a.rx *= s
		a.ry *= s
		if c.Bool() {
			a.ry = a.rx
		}
	case "huge":
		s := 1e3
		a.start, a.end = P(a.start.X*s, a.start.Y*s), P(a.end.X*s, a.end.Y*s)
		a.rx *= s
		a.ry *= s
		if c.Bool() {
			a.ry = a.rx
		}
	case "half":
		// diameter chord, phi = 0: the "common case" branch of ellipseToCenter
		a.ry = a.rx
		a.rot = 0
		a.end = P(a.start.X+2*a.rx*float64(1-2*c.Intn(2)), a.start.Y)
	case "scaled-up":
		// radii too small for the chord: ArcTo scales them
		a.rx, a.ry = 0.1*a.rx, 0.1*a.ry
	}
	return a
}

func (a arcIn) path() *canvas.Path {
	p := &canvas.Path{}
	p.MoveTo(a.start.X, a.start.Y)
	p.ArcTo(a.rx, a.ry, a.rot, a.large, a.sweep, a.end.X, a.end.Y)
	return p
}

func genTol(c *hc.Ctx) float64 { return tolerances[c.Intn(len(tolerances))] }

// pow2Scale: the smallest power of two >= the largest coordinate magnitude (>= 1). The tolerant ('~')
// correspondence lines carry it and both sides divide their output coordinates by it (exact), so that
// the comparison tolerance is relative to the size of the curve, not to each coordinate (a coordinate of
// a 1e5-size curve that happens to pass near zero carries the rounding drift of the whole curve).
func pow2Scale(xs ...float64) float64 {
	m := 1.0
	for _, x := range xs {
		m = math.Max(m, math.Abs(x))
	}
	return math.Exp2(math.Ceil(math.Log2(m)))
}

func flatTokensScaled(d []float64, scale float64) string {
	e := make([]float64, len(d))
	copy(e, d)
	for i := 0; i+3 < len(e); i += 4 {
		e[i+1] /= scale
		e[i+2] /= scale
	}
	return flatTokens(e)
}

// maxTildeVertices: '~' lines are emitted only for outputs up to this size: the libm/Go difference of
// Cbrt/Acos (1 ulp per step) accumulates with the number of steps, and long lines dominate the run time
const maxTildeVertices = 2000

// tolsFor: in the quick tier the huge (1e4..1e5 coordinates) families use tolerances scaled by 100, which
// bounds the output at a few thousand points per curve; the thorough tier keeps the unscaled ones
func tolsFor(c *hc.Ctx, fam string) []float64 {
	if c.Tier != "thorough" && strings.HasSuffix(fam, "huge") {
		return []float64{100, 10, 1, 0.01}
	}
	return tolerances
}

// data -> "n x1 y1 ..." for the points after the MoveTo of a flat path
func flatTokens(d []float64) string {
	var xs []float64
	n := 0
	for i := 4; i+3 < len(d); i += 4 {
		xs = append(xs, d[i+1], d[i+2])
		n++
	}
	if n == 0 {
		return "0 "
	}
	return fmt.Sprintf("%d %s", n, hc.Hs(xs...))
}

// ---- L2 correspondence --------------------------------------------------------------------------

func corrQuad(c *hc.Ctx) {
	for it := 0; it < 2*c.N; it++ {
		fam := quadFamilies[c.Intn(len(quadFamilies))]
		p0, p1, p2 := genQuad(c, fam)
		tol := tolsFor(c, fam)[c.Intn(4)]
		var d []float64
		if msg := hc.Try(func() { d = canvas.VerifFlattenQuadraticBezier(p0, p1, p2, tol) }); msg != "" {
			c.Fail("panic", "flattenQuadraticBezier panicked: "+msg, []float64{p0.X, p0.Y, p1.X, p1.Y, p2.X, p2.Y, tol})
			continue
		}
		line := "FQ " + hc.Hs(p0.X, p0.Y, p1.X, p1.Y, p2.X, p2.Y, tol)
		c.Case(line, "=", flatTokens(d))
		n := len(d)/4 - 1
		c.Count("corr-quad:" + fam)
		c.Count("corr-quad-vertices:" + bucket(n))
		c.Distinct(line)
		if it == 0 {
			c.Sample(fmt.Sprintf("flattenQuadraticBezier(%v,%v,%v,%g) -> %d vertices", p0, p1, p2, tol, n))
		}
	}
}

func bucket(n int) string {
	switch {
	case n <= 1:
		return "1"
	case n <= 4:
		return "2-4"
	case n <= 16:
		return "5-16"
	case n <= 64:
		return "17-64"
	default:
		return "65+"
	}
}

// near a decision threshold a 1-ulp difference of Cbrt/Acos between Go and libm changes the number
// of vertices; such cases are recognised by re-running the real code with the tolerance nudged
func stableCount(f func(tol float64) []float64, tol float64) bool {
	a, b, d := f(tol*(1-1e-9)), f(tol*(1+1e-9)), f(tol)
	return len(a) == len(d) && len(b) == len(d)
}

// fixedCubics: the cubics of the repaired strokeCubicBezier defects — they drive the rare branches
// (overlap with t1max >= 1, t2 range inside t1 range, inflection just below 1) through the FC correspondence
var fixedCubics = []struct {
	p   [8]float64
	tol float64
}{
	{[8]float64{5.25, 13.188, -9, 8.401, 6, 1.369, -1.929, 6}, 1},
	// since f410714 shrinks the ranges of the cubic above, this cusp drives the branch "t1 range extends beyond the end" (0b69218)
	{[8]float64{12.24, 15.25, 13.20719227693256, 1.789999938632006, 12.233508774840201, 15.439999938632006, 13.2, 1.6}, 1},
	{[8]float64{8.36, 17.2, 12.686790015884446, -17.136022638468976, 8.352797823589983, 17.703977361531024, 12.68, -17.64}, 0.3},
	{[8]float64{4.75, -16.342, 2.009085582444131, 1.1275676600967628, 4.744297569384708, -15.214432339903237, 2, 0}, 0.1},
	{[8]float64{4.75, -16.342, 2.009085582444131, 1.1275676600967628, 4.744297569384708, -15.214432339903237, 2, 0}, 0.01},
	{[8]float64{0.214, -15.896, 16.371, -3, -0.854, 19.91, -0.854, 19.91}, 0.01},
	{[8]float64{0, 0, 0, 100, 1, 100, 1, 0}, 1},
}

func corrCubic(c *hc.Ctx) {
	for it := 0; it < len(fixedCubics)+2*c.N; it++ {
		var fam string
		var p0, p1, p2, p3 pt
		var tol float64
		if it < len(fixedCubics) {
			f := fixedCubics[it]
			fam, tol = "fixed", f.tol
			p0, p1, p2, p3 = P(f.p[0], f.p[1]), P(f.p[2], f.p[3]), P(f.p[4], f.p[5]), P(f.p[6], f.p[7])
		} else {
			fam = cubicFamilies[c.Intn(len(cubicFamilies))]
			p0, p1, p2, p3 = genCubic(c, fam)
			tol = tolsFor(c, fam)[c.Intn(4)]
		}
		args := hc.Hs(p0.X, p0.Y, p1.X, p1.Y, p2.X, p2.Y, p3.X, p3.Y)
		// inflection points: + - * / sqrt only -> exact
		t1, t2 := canvas.VerifFindInflectionPointsCubicBezier(p0, p1, p2, p3)
		c.Case("INF "+args, "=", hc.Hs(t1, t2))
		switch {
		case !math.IsNaN(t2):
			c.Count("inflections:2")
		case !math.IsNaN(t1):
			c.Count("inflections:1")
		default:
			c.Count("inflections:0")
		}
		// cubicBezierDeviation: + - * / sqrt (Hypot as on amd64), comparisons -> bit exact; with and without the
		// offset term of 07f2911
		dd := []float64{0, 0, 0.75, -2.5, c.Range(-3, 3)}[c.Intn(5)]
		c.Case("DV "+args+" "+hc.H(dd), "=", hc.H(canvas.VerifCubicBezierDeviation(p0, p1, p2, p3, dd)))
		c.Count(fmt.Sprintf("corr-deviation:offset=%v", dd != 0))
		c.Count("branch:strokeCubicBezier:" + strokeBranch(p0, p1, p2, p3, t1, t2, math.Max(tol, canvas.Epsilon)))
		// subdivision loop alone
		fs := func(tol float64) []float64 { return canvas.VerifFlattenSmoothCubicBezier(p0, p1, p2, p3, tol) }
		fc := func(tol float64) []float64 { return canvas.VerifFlattenCubicBezier(p0, p1, p2, p3, tol) }
		var ds, dc []float64
		if msg := hc.Try(func() { ds = fs(tol); dc = fc(tol) }); msg != "" {
			c.Fail("panic", "flattenCubicBezier panicked: "+msg, []float64{p0.X, p0.Y, p1.X, p1.Y, p2.X, p2.Y, p3.X, p3.Y, tol})
			continue
		}
		// the correspondence inputs are judged by the oracle as well (when a model/code difference shows up here
		// the failing input is at hand)
		if len(dc)/4 <= 300 {
			cp := &canvas.Path{}
			cp.MoveTo(p0.X, p0.Y)
			cp.CubeTo(p1.X, p1.Y, p2.X, p2.Y, p3.X, p3.Y)
			flattenOne(c, cp, tol, "corr-cubic:"+fam)
		}
		sc := pow2Scale(p0.X, p0.Y, p1.X, p1.Y, p2.X, p2.Y, p3.X, p3.Y)
		if len(ds)/4 > maxTildeVertices || len(dc)/4 > maxTildeVertices {
			c.Count("corr-cubic-skip-more-than-2000-vertices")
			continue
		}
		if stableCount(fs, tol) {
			c.Case("FS "+args+" "+hc.H(tol)+" "+hc.H(sc), "~", flatTokensScaled(ds, sc))
			c.Count("corr-smooth:" + fam)
		} else {
			c.Count("corr-smooth-skip-threshold")
		}
		if stableCount(fc, tol) {
			c.Case("FC "+args+" "+hc.H(tol)+" "+hc.H(sc), "~", flatTokensScaled(dc, sc))
			c.Count("corr-cubic:" + fam)
			c.Count("corr-cubic-vertices:" + bucket(len(dc)/4-1))
			c.Distinct("FC " + args + hc.H(tol))
		} else {
			c.Count("corr-cubic-skip-threshold")
		}
	}
}

// strokeBranch names the path strokeCubicBezier (d = 0) takes through its inflection-range logic, from the
// exported pieces of that logic (generator quality: which branches of the modelled function are reached)
func strokeBranch(p0, p1, p2, p3 pt, t1, t2, tol float64) string {
	if math.IsNaN(t1) && math.IsNaN(t2) {
		return "no-inflection"
	}
	var t1min, t1max, t2min, t2max float64
	if msg := hc.Try(func() {
		t1min, t1max = canvas.VerifFindInflectionPointRangeCubicBezier(p0, p1, p2, p3, t1, tol)
		t2min, t2max = canvas.VerifFindInflectionPointRangeCubicBezier(p0, p1, p2, p3, t2, tol)
	}); msg != "" {
		return "range-panic"
	}
	if math.IsNaN(t2) && t1min <= 0 && 1 <= t1max {
		return "one-range-covers-all"
	}
	b := "pre=0"
	if 0 < t1min {
		b = "pre=1"
	}
	if 0 < t1max && t1max < 1 && t1max < t2min {
		if 1 <= t2min {
			return b + ",t1-then-smooth-rest"
		}
		b += ",t1-separate"
	} else if 1 <= t2min {
		return b + ",t1-reaches-end"
	}
	if 0 < t2min {
		if t2min < t1max {
			if 1 <= t1max {
				return b + ",overlap-t1-beyond-end"
			}
			b += ",overlap"
		} else {
			b += ",gap-smooth"
		}
	} else {
		b += ",t2min<=0"
	}
	if t2max < t1max {
		b += ",t2-inside-t1"
		t2max = t1max
	}
	if t2max < 1 {
		return b + ",rest-smooth"
	}
	return b + ",t2-reaches-end"
}

func corrArc(c *hc.Ctx) {
	for it := 0; it < c.N; it++ {
		fam := arcFamilies[c.Intn(len(arcFamilies))]
		a := genArc(c, fam)
		d := a.path().Data()
		if len(d) != 12 || d[4] != canvas.ArcToCmd {
			c.Count("corr-arc-skip-not-an-arc")
			continue
		}
		// the canonical arguments stored by ArcTo are what replace() hands to flattenEllipticArc
		rx, ry, phi := d[5], d[6], d[7]
		large, sweep := d[8] == 1 || d[8] == 3, d[8] == 2 || d[8] == 3
		tol := tolsFor(c, fam)[c.Intn(4)]
		f := func(tol float64) []float64 {
			return canvas.VerifFlattenEllipticArc(a.start, rx, ry, phi, large, sweep, a.end, tol)
		}
		var out []float64
		if msg := hc.Try(func() { out = f(tol) }); msg != "" {
			c.Fail("panic", "flattenEllipticArc panicked: "+msg, fmt.Sprint(a, tol))
			continue
		}
		sc := pow2Scale(a.start.X, a.start.Y, a.end.X, a.end.Y, rx)
		line := fmt.Sprintf("FA %s %s %s", hc.B(large), hc.B(sweep), hc.Hs(a.start.X, a.start.Y, rx, ry, phi, a.end.X, a.end.Y, tol, sc))
		shape := "circle"
		if !canvas.Equal(rx, ry) {
			shape = "ellipse"
		}
		if tol >= rx {
			// Acos((r-tol)/r) of a negative argument / NaN: behaviour is judged by the oracle, the
			// step count is float-noise dominated
			c.Count("corr-arc-skip-tol>=r")
			continue
		}
		if !stableCount(f, tol) {
			c.Count("corr-arc-skip-threshold")
			continue
		}
		if len(out)/4 > 2000 {
			// theta += 2*thetaMid is accumulated thousands of times: the libm/Go Acos difference grows past
			// the comparison tolerance
			c.Count("corr-arc-skip-more-than-2000-vertices")
			continue
		}
		c.Case(line, "~", flatTokensScaled(out, sc))
		c.Count("corr-arc:" + shape + ":" + fam)
		c.Count(fmt.Sprintf("corr-arc-flags:large=%v,sweep=%v", large, sweep))
		c.Distinct(line)
	}
}

// curveTokens: the control and end points of the Q / C commands after the MoveTo; ok=false when the
// builder turned a piece into a LineTo (collinear control polygon) or dropped it
func curveTokens(d []float64, kind float64, n int) (string, bool) {
	var xs []float64
	for i := 4; i < len(d); i += n {
		if d[i] != kind || i+n > len(d) {
			return "", false
		}
		xs = append(xs, d[i+1:i+n-1]...)
	}
	return hc.Hs(xs...), len(xs) > 0
}

// arcToCube (ellipseToCubicBeziers + ellipseToCenter) against the Lean transcription; Sincos/Acos/Tan -> '~',
// coordinates divided by the power-of-two scale on both sides
func corrArcToCube(c *hc.Ctx) {
	for it := 0; it < c.N; it++ {
		fam := arcFamilies[c.Intn(len(arcFamilies))]
		a := genArc(c, fam)
		d := a.path().Data()
		if len(d) != 12 || d[4] != canvas.ArcToCmd {
			c.Count("corr-arctocube-skip-not-an-arc")
			continue
		}
		rx, ry, phi := d[5], d[6], d[7]
		large, sweep := d[8] == 1 || d[8] == 3, d[8] == 2 || d[8] == 3
		var out []float64
		if msg := hc.Try(func() { out = canvas.VerifArcToCube(a.start, rx, ry, phi, large, sweep, a.end) }); msg != "" {
			c.Fail("panic", "arcToCube panicked: "+msg, fmt.Sprint(a))
			continue
		}
		// the number of pieces is ceil(|dtheta| / 90deg): at an exact multiple (half ellipses) the last ulp of
		// Acos decides; such threshold cases are skipped and counted
		_, _, th0, th1 := canvas.VerifEllipseToCenter(a.start.X, a.start.Y, rx, ry, phi, large, sweep, a.end.X, a.end.Y)
		if q := math.Abs(th1-th0) / (math.Pi / 2); math.Abs(q-math.Round(q)) < 1e-9 {
			c.Count("corr-arctocube-skip-threshold")
			continue
		}
		sc := pow2Scale(a.start.X, a.start.Y, a.end.X, a.end.Y, rx)
		e := make([]float64, len(out))
		copy(e, out)
		for i := 4; i+7 < len(e); i += 8 {
			for k := 1; k <= 6; k++ {
				e[i+k] /= sc
			}
		}
		toks, ok := curveTokens(e, canvas.CubeToCmd, 8)
		if !ok {
			c.Count("corr-arctocube-skip-builder-simplified")
			continue
		}
		c.Case(fmt.Sprintf("AC %s %s %s", hc.B(large), hc.B(sweep), hc.Hs(a.start.X, a.start.Y, rx, ry, phi, a.end.X, a.end.Y, sc)), "~", toks)
		c.Count(fmt.Sprintf("corr-arctocube:%s:pieces=%d", fam, (len(out)-4)/8))
	}
}

// xmonotoneQuadraticBezier / xmonotoneCubicBezier against the Lean transcriptions: + - * / sqrt and
// comparisons only -> bit exact
func corrXMono(c *hc.Ctx) {
	for it := 0; it < c.N; it++ {
		fam := quadFamilies[c.Intn(len(quadFamilies))]
		p0, p1, p2 := genQuad(c, fam)
		d := canvas.VerifXMonotoneQuadraticBezier(p0, p1, p2)
		if toks, ok := curveTokens(d, canvas.QuadToCmd, 6); ok {
			c.Case("XQ "+hc.Hs(p0.X, p0.Y, p1.X, p1.Y, p2.X, p2.Y), "=", toks)
			c.Count(fmt.Sprintf("corr-xmono-quad:pieces=%d", (len(d)-4)/6))
		} else {
			c.Count("corr-xmono-quad-skip-builder-simplified")
		}
		cfam := cubicFamilies[c.Intn(len(cubicFamilies))]
		q0, q1, q2, q3 := genCubic(c, cfam)
		var dc []float64
		if msg := hc.Try(func() { dc = canvas.VerifXMonotoneCubicBezier(q0, q1, q2, q3) }); msg != "" {
			c.Fail("panic", "xmonotoneCubicBezier panicked: "+msg, []float64{q0.X, q0.Y, q1.X, q1.Y, q2.X, q2.Y, q3.X, q3.Y})
			continue
		}
		if toks, ok := curveTokens(dc, canvas.CubeToCmd, 8); ok {
			c.Case("XC "+hc.Hs(q0.X, q0.Y, q1.X, q1.Y, q2.X, q2.Y, q3.X, q3.Y), "=", toks)
			c.Count(fmt.Sprintf("corr-xmono-cubic:pieces=%d", (len(dc)-4)/8))
		} else {
			c.Count("corr-xmono-cubic-skip-builder-simplified")
		}
	}
}

// ---- structure signature ------------------------------------------------------------------------

type subsig struct {
	start, last hc.P2
	closed      bool
}

func signature(segs []hc.Seg) []subsig {
	var out []subsig
	for _, s := range segs {
		switch s.Kind {
		case 'M':
			out = append(out, subsig{s.End, s.End, false})
		default:
			if len(out) == 0 {
				out = append(out, subsig{s.End, s.End, false})
			}
			out[len(out)-1].last = s.End
			if s.Kind == 'Z' {
				out[len(out)-1].closed = true
			}
		}
	}
	return out
}

func sigTokens(sg []subsig) string {
	var sb strings.Builder
	fmt.Fprintf(&sb, "%d ", len(sg))
	for i, s := range sg {
		if i > 0 {
			sb.WriteByte(' ')
		}
		sb.WriteString(hc.Hs(s.start.X, s.start.Y, s.last.X, s.last.Y) + " " + hc.B(s.closed))
	}
	return sb.String()
}

func sigEqual(a, b []subsig, tol float64) bool {
	if len(a) != len(b) {
		return false
	}
	for i := range a {
		if a[i].closed != b[i].closed || a[i].start.Dist(b[i].start) > tol || a[i].last.Dist(b[i].last) > tol {
			return false
		}
	}
	return true
}

func cmdTokens(segs []hc.Seg) string {
	var sb []string
	for _, s := range segs {
		k := string(s.Kind)
		if s.Kind == 'Q' || s.Kind == 'C' || s.Kind == 'A' {
			k = "K"
		}
		sb = append(sb, k+" "+hc.Hs(s.End.X, s.End.Y))
	}
	return strings.Join(sb, " ")
}

func cross(a, b hc.P2) float64 { return a.X*b.Y - a.Y*b.X }

// foldback reports whether the control polygon of a Bézier segment turns by more than 90 degrees
// (some pair of legs has a negative dot product), and whether it is numerically collinear.
func foldback(s hc.Seg) (fold, collinear bool) {
	var legs []hc.P2
	switch s.Kind {
	case 'Q':
		legs = []hc.P2{s.P1.Sub(s.P0), s.End.Sub(s.P1)}
	case 'C':
		legs = []hc.P2{s.P1.Sub(s.P0), s.P2.Sub(s.P1), s.End.Sub(s.P2)}
	default:
		return false, false
	}
	collinear = true
	for i := range legs {
		for j := i + 1; j < len(legs); j++ {
			if legs[i].Dot(legs[j]) < 0 {
				fold = true
			}
			if math.Abs(cross(legs[i], legs[j])) > 1e-6*legs[i].Len()*legs[j].Len() {
				collinear = false
			}
		}
	}
	return
}

// degenerate: a curve whose flattening is empty on the real code (zero-area out-and-back curve with
// coinciding end points and collinear control points) — makes a subpath vanish; judged by the oracle.
func corrSig(c *hc.Ctx) {
	for it := 0; it < c.N; it++ {
		kinds := []string{"LQ", "LQC", "LQCA", "QCAZ", "LAZ", "QC"}[c.Intn(6)]
		p := c.GenPath(kinds, 5, 3)
		tol := genTol(c)
		in, err := hc.Decode(p.Data())
		if err != nil {
			c.Fail("malformed-input", err.Error(), p.String())
			continue
		}
		var q *canvas.Path
		if msg := hc.Try(func() { q = p.Flatten(tol) }); msg != "" {
			c.Fail("panic", "Flatten panicked: "+msg, map[string]any{"path": p.String(), "tol": tol})
			continue
		}
		out, err := hc.Decode(q.Data())
		if err != nil {
			c.Fail("malformed-output", err.Error(), map[string]any{"path": p.String(), "tol": tol})
			continue
		}
		c.Case("SIG "+cmdTokens(in), "~", sigTokens(signature(out)))
		c.Count(fmt.Sprintf("sig:subpaths=%d", len(signature(in))))
		c.Distinct(p.String())
	}
}

// ---- structure at large coordinates ---------------------------------------------------------------

// genBigArcPath: rotated non-circular arcs with coordinates of magnitude 1e3..1e6 (where the end point
// recomputed from the centre parametrisation misses the stored end point by more than Epsilon), each
// followed by further commands, mostly closed, one to three subpaths.
func genBigArcPath(c *hc.Ctx) (*canvas.Path, float64) {
	mag := []float64{1e3, 1e4, 1e5, 1e6}[c.Intn(4)]
	if c.Chance(0.15) {
		mag = 500 // integer parameters below 500, as in everyday page coordinates
	}
	co := func() float64 {
		if c.Bool() {
			return math.Round(c.Range(-1, 1) * mag)
		}
		return c.Range(-1, 1) * mag
	}
	p := &canvas.Path{}
	ns := 1 + c.Intn(3)
	for s := 0; s < ns; s++ {
		p.MoveTo(co(), co())
		if c.Chance(0.3) {
			p.LineTo(co(), co())
		}
		narc := 1 + c.Intn(2)
		for a := 0; a < narc; a++ {
			rx := math.Abs(co()) + mag/100
			ry := rx * c.Range(0.05, 0.95)
			rot := float64(c.Intn(12))*15 + c.Range(0, 15)*float64(c.Intn(2))
			p.ArcTo(rx, ry, rot, c.Bool(), c.Bool(), co(), co())
			switch c.Intn(5) {
			case 0:
				p.LineTo(co(), co())
			case 1:
				p.QuadTo(co(), co(), co(), co())
			case 2:
				p.CubeTo(co(), co(), co(), co(), co(), co())
			case 3:
				end := p.Pos()
				p.LineTo(end.X+7, end.Y+13) // a short line right after the arc
			}
		}
		if c.Chance(0.75) {
			p.Close()
		}
	}
	return p, mag
}

// structureOf judges the clause "same subpaths, same start and end points, same open/closed status":
// subpath count, per subpath start / end point within tol and closedness, every Close returning to the
// start of ITS OWN subpath, and no stray MoveTo (a subpath consisting of a MoveTo only that the input
// does not have). Returns "" when the structure is preserved.
func structureOf(in, out []hc.Seg, tol float64) string {
	si, so := signature(in), signature(out)
	if len(si) != len(so) {
		return fmt.Sprintf("%d subpaths became %d", len(si), len(so))
	}
	for i := range si {
		switch {
		case si[i].closed != so[i].closed:
			return fmt.Sprintf("subpath %d: closed %v became %v", i, si[i].closed, so[i].closed)
		case si[i].start.Dist(so[i].start) > tol:
			return fmt.Sprintf("subpath %d: start %v became %v", i, si[i].start, so[i].start)
		case si[i].last.Dist(so[i].last) > tol:
			return fmt.Sprintf("subpath %d: end %v became %v", i, si[i].last, so[i].last)
		}
	}
	for k, sub := range hc.Subpaths(out) {
		for _, s := range sub {
			if s.Kind == 'Z' && s.End.Dist(sub[0].End) > tol {
				return fmt.Sprintf("subpath %d: Close goes to %v, the subpath starts at %v", k, s.End, sub[0].End)
			}
		}
		// consecutive segments are connected by construction of Decode; a jump can only be a MoveTo, i.e. a
		// new subpath, which the count above has excluded
	}
	return ""
}

func oracleStructure(c *hc.Ctx) {
	// the inputs of the seeded defect report (integer parameters below 500) and generated paths
	fixed := []string{
		"M6 91A6 41 15 0 1 9 57L16 70z", "M471 51A334 36 0 0 0 135 15L142 28z", "M20 66A483 204 30 1 1 343 488L350 501z",
		"M138 205A184 98 60 1 1 189 473L196 486z", "M28 150A110 244 60 0 1 73 20L80 33z", "M295 43A324 420 75 1 0 300 152L307 165z",
	}
	for it := 0; it < len(fixed)+2*c.N; it++ {
		var p *canvas.Path
		mag := 500.0
		if it < len(fixed) {
			p = canvas.MustParseSVGPath(fixed[it])
		} else {
			p, mag = genBigArcPath(c)
		}
		in, err := hc.Decode(p.Data())
		if err != nil || len(in) < 2 {
			c.Count("struct-skip-degenerate-input")
			continue
		}
		scale := scaleOf(in)
		tol := 1e-9*scale + 2e-10
		fam := fmt.Sprintf("struct:mag=%g", mag)
		// how far do the arcs' recomputed end points miss the stored ones (what the bridging LineTo is for)?
		gapClass := "gap<=1e-10"
		if d, err := hc.Decode(p.ReplaceArcs().Data()); err == nil {
			for i := 0; i+1 < len(d); i++ {
				if d[i].Kind == 'C' && d[i+1].Kind == 'L' && d[i].End.Dist(d[i+1].End) < 1e-6*scale && d[i].End.Dist(d[i+1].End) > 0 {
					gapClass = "gap>1e-10"
				}
			}
		}
		c.Count(fam + ":" + gapClass)
		ftol := genTol(c) * mag / 100
		ops := []struct {
			name string
			f    func() *canvas.Path
		}{
			{"Flatten", func() *canvas.Path { return p.Flatten(ftol) }},
			{"ReplaceArcs", func() *canvas.Path { return p.ReplaceArcs() }},
			{"XMonotone", func() *canvas.Path { return p.XMonotone() }},
		}
		for _, op := range ops {
			c.Evals++
			var q *canvas.Path
			replay := map[string]any{"path": p.String(), "data": hc.DataHex(p.Data()), "op": op.name, "tol": ftol, "family": fam}
			if msg := hc.Try(func() { q = op.f() }); msg != "" {
				c.Fail("panic", op.name+" panicked: "+msg, replay)
				continue
			}
			out, err := hc.Decode(q.Data())
			if err != nil {
				c.Fail("malformed-output", op.name+": "+err.Error(), replay)
				continue
			}
			outs := q.String()
			if len(outs) > 300 {
				outs = outs[:300] + "…"
			}
			replay["out"] = outs
			if msg := structureOf(in, out, tol); msg != "" {
				c.Fail("replace-structure:"+op.name, op.name+" changed the subpath structure: "+msg, replay)
				continue
			}
			c.Count("struct-ok:" + op.name)
		}
		c.Distinct(p.String())
		// the same inputs through the signature correspondence with the Lean splice model
		if q := p.Flatten(ftol); true {
			if out, err := hc.Decode(q.Data()); err == nil {
				c.Case("SIG "+cmdTokens(in), "~", sigTokens(signature(out)))
				c.Count("sig:bigarc")
			}
		}
	}
}

// ---- oracles ------------------------------------------------------------------------------------

func note(c *hc.Ctx, key string, v float64) {
	k := "max-x1000:" + key
	if iv := int(math.Ceil(v * 1000)); iv > c.Hist[k] {
		c.Hist[k] = iv
	}
}

// densePoints samples the drawing segments of one subpath; returns points and, per point, a global
// parameter index (monotone along the subpath).
func densePoints(sub []hc.Seg, n int) []hc.P2 {
	var pts []hc.P2
	for _, s := range sub {
		if s.Kind == 'M' {
			pts = append(pts, s.End)
			continue
		}
		m := n
		if s.Kind == 'L' || s.Kind == 'Z' {
			m = 1
		}
		sp := hc.SampleSeg(s, m)
		pts = append(pts, sp[1:]...)
	}
	return pts
}

func polyOf(sub []hc.Seg) []hc.P2 {
	var pts []hc.P2
	for _, s := range sub {
		pts = append(pts, s.End)
	}
	return pts
}

// scaleOf: magnitude of the coordinates (for rounding slack)
func scaleOf(segs []hc.Seg) float64 {
	m := 1.0
	for _, s := range segs {
		for _, p := range []hc.P2{s.P0, s.P1, s.P2, s.End} {
			m = math.Max(m, math.Max(math.Abs(p.X), math.Abs(p.Y)))
		}
		if s.Kind == 'A' {
			m = math.Max(m, s.Rx)
		}
	}
	return m
}

type judged struct {
	structureOK bool
	vertexDev   float64 // max distance of an output vertex from the input curve
	orderOK     bool
	curveDev    float64 // one-sided Hausdorff distance curve -> polyline
	worst       hc.Seg  // input segment carrying the point of largest deviation
	sag         float64 // resolution of the dense evaluation
	farVertex   hc.P2   // the output vertex farthest from the curve
	msg         string
}

const dense = 256

// judge compares Flatten's output with the input path by independent evaluation.
func judge(in, out []hc.Seg, tol, slack float64) judged {
	j := judged{structureOK: true, orderOK: true}
	for _, s := range out {
		if s.Kind != 'M' && s.Kind != 'L' && s.Kind != 'Z' {
			j.structureOK = false
			j.msg = fmt.Sprintf("output contains a %c command", s.Kind)
			return j
		}
	}
	si, so := signature(in), signature(out)
	scale := scaleOf(in)
	if !sigEqual(si, so, 1e-9*scale+2e-10) {
		j.structureOK = false
		j.msg = fmt.Sprintf("subpath signature changed: in %v out %v", si, so)
		return j
	}
	subsIn, subsOut := hc.Subpaths(in), hc.Subpaths(out)
	for k := range subsIn {
		poly := polyOf(subsOut[k])
		// curve -> polyline, per input segment
		var curve []hc.P2
		var samples []curveSamples
		for _, s := range subsIn[k] {
			samples = append(samples, sampleCurve(s))
			if s.Kind == 'M' {
				curve = append(curve, s.End)
				continue
			}
			m := dense
			if s.Kind == 'L' || s.Kind == 'Z' {
				m = 1
			}
			sp := hc.SampleSeg(s, m)
			for _, p := range sp {
				if d := hc.DistPointPolyline(p, poly); d > j.curveDev {
					j.curveDev, j.worst = d, s
				}
			}
			j.sag = math.Max(j.sag, segSag(sp))
			curve = append(curve, sp[1:]...)
		}
		// vertices -> curve, in order: greedy monotone matching against the dense curve polyline.
		// Every vertex must be met within the tolerance (plus the allowances passed in `slack`) at or after
		// the place where its predecessor was met.
		pos := 0
		for _, v := range poly {
			d := math.Inf(1)
			for _, cs := range samples {
				d = math.Min(d, distPointCurve(v, cs))
			}
			if d > j.vertexDev {
				j.vertexDev, j.farVertex = d, v
			}
			reach := tol + slack + 2*j.sag + 1e-9*scale + 1e-12
			found := -1
			if len(curve) == 1 {
				found = 0
			}
			for i := pos; i+1 < len(curve); i++ {
				if hc.DistPointSeg(v, curve[i], curve[i+1]) <= reach {
					found = i
					break
				}
			}
			if found < 0 {
				j.orderOK = false
				j.msg = fmt.Sprintf("vertex %v of subpath %d is not met in curve order (after dense index %d of %d)", v, k, pos, len(curve))
				break
			}
			pos = found
		}
	}
	return j
}

// classify names the known defect class an input segment belongs to ("" if none): fold-back control
// polygons (turn > 90 degrees; collinear overshoot is the zero-width member).
func classify(s hc.Seg) string {
	fold, col := foldback(s)
	if !fold {
		switch {
		case s.Kind == 'L' || s.Kind == 'Z':
			// a straight input segment that the output does not cover: Path.LineTo (path.go:414) merges an
			// axis-parallel direction REVERSAL into the previous LineTo (`da.Y < da.X` compares signed values)
			return "flatten-lineto-reversal-merge"
		case s.Kind == 'C' && s.P2.Dist(s.End) <= 1e-9*(1+math.Abs(s.End.X)+math.Abs(s.End.Y)):
			// p2 = p3: inflection parameter just below 1; findInflectionPointRangeCubicBezier then answers
			// (0,1) for the degenerate piece after it, which strokeCubicBezier reads as "whole curve is flat"
			return "flatten-cubic-end-inflection-whole-chord"
		}
		return ""
	}
	switch {
	case s.Kind == 'Q' && col:
		return "flatten-collinear-overshoot-quad"
	case s.Kind == 'Q':
		return "flatten-thin-hairpin-quad"
	case s.Kind == 'C' && col:
		return "flatten-collinear-overshoot-cubic"
	case s.Kind == 'C':
		return "flatten-thin-hairpin-cubic"
	}
	return ""
}

// Bound constants C (curve -> polyline distance <= C * tol), derived:
//
//	quadratic, control polygon turning <= 90 degrees: 2 (theorems C03.quad_piece_within_two_tol_partial,
//	   C03.quad_last_piece_within_two_tol_partial)
//	circle arcs: vertices on radius r + ratio*tol, chords touch r - tol (ratio <= 1) -> 2
//	cubic: 4, for EVERY cubic — since f410714 every emitted chord is checked with cubicBezierDeviation
//	   (3/4 of the larger distance of the inner control points from the chord segment, a rigorous bound of the
//	   distance curve -> chord: theorems C03.cubic_within_deviation_of_chord, C03.flatten_cubic_every_piece_within_four_tol)
//	   and steps / inflection ranges are halved until it is <= 4 tol (measured maximum 3.98 on 60,000 curves)
//
// Elliptic (rx != ry) arcs are first replaced by cubics (arcToCube), which have a fixed relative error:
// for the control length alpha = sin(d)(sqrt(4+3 tan^2(d/2))-1)/3 used by the code the midpoint of a
// 90 degree piece lies at radius (4+3 alpha)/8*sqrt(2) = 0.99805, i.e. 1.95e-3 * r inside.
const (
	cQuad      = 2.0
	cCircle    = 2.0
	cCubic     = 4.0
	arcToCubeR = 2.0e-3
)

func boundFor(s hc.Seg) float64 {
	switch s.Kind {
	case 'Q':
		return cQuad
	case 'A':
		// since f749928 every arc is flattened as the image of a circle under a map that does not increase distances
		return cCircle
	}
	return cCubic
}

func flattenOne(c *hc.Ctx, p *canvas.Path, tol float64, fam string) {
	in, err := hc.Decode(p.Data())
	if err != nil || len(in) < 2 {
		c.Count("oracle-skip-degenerate-input")
		return
	}
	c.Evals++
	var q *canvas.Path
	if msg := hc.Try(func() { q = p.Flatten(tol) }); msg != "" {
		c.Fail("panic", "Flatten panicked: "+msg, map[string]any{"path": p.String(), "tol": tol})
		return
	}
	out, err := hc.Decode(q.Data())
	if err != nil {
		c.Fail("malformed-output", err.Error(), map[string]any{"path": p.String(), "tol": tol})
		return
	}
	outs := q.String()
	if len(outs) > 300 {
		outs = outs[:300] + "…"
	}
	replay := map[string]any{"path": p.String(), "data": hc.DataHex(p.Data()), "tol": tol, "family": fam, "out": outs}
	scale := scaleOf(in)
	round := 1e-9*scale + 1e-12
	// `floor` is only a LABEL now: until f749928 elliptic arcs went through arcToCube (fixed relative error); a failure
	// of an elliptic arc within that old error is reported under the regression kind flatten-elliptic-arc-error-floor.
	// Arc angles come from Acos (absolute error about sqrt(ulp) = 1.5e-8 rad near 0 and pi) and the centre
	// from a square root clamped at Epsilon: allow 1e-7 * radius for every arc
	floor := 0.0
	for _, s := range in {
		if s.Kind == 'A' {
			round = math.Max(round, 1e-7*s.Rx)
			if !canvas.Equal(s.Rx, s.Ry) {
				floor = math.Max(floor, arcToCubeR*s.Rx)
			}
		}
	}
	j := judge(in, out, tol, round)
	if !j.structureOK {
		kind := "flatten-structure"
		for _, s := range in {
			// a closed curve with collinear control points flattens to nothing, so its subpath is lost
			if k := classify(s); k != "" && s.P0.Dist(s.End) < 1e-9 && strings.Contains(k, "collinear") {
				kind = k
			}
		}
		if kind == "flatten-structure" {
			c.Fail(kind, "Flatten changed the path structure: "+j.msg, replay)
		} else {
			knownFail(c, kind, "Flatten changed the path structure: "+j.msg, replay)
		}
		return
	}
	c.Distinct(p.String() + fmt.Sprint(tol))
	if j.vertexDev > tol+round {
		// regression class: strokeCubicBezier splits at t1max without checking t1max < 1 (path_util.go:936-939),
		// so a vertex B(t) with t > 1 — on the polynomial extension of the cubic, beyond its end — is emitted
		for _, s := range in {
			if s.Kind != 'C' {
				continue
			}
			bi, bd := 0, math.Inf(1)
			for i := 0; i <= 4000; i++ {
				if d := j.farVertex.Dist(s.At(1 + float64(i)/1000)); d < bd {
					bi, bd = i, d
				}
			}
			lo, hi := 1+float64(bi-1)/1000, 1+float64(bi+1)/1000
			for k := 0; k < 60; k++ {
				m1, m2 := lo+(hi-lo)/3, hi-(hi-lo)/3
				if j.farVertex.Dist(s.At(m1)) < j.farVertex.Dist(s.At(m2)) {
					hi = m2
				} else {
					lo = m1
				}
			}
			if text := (lo + hi) / 2; text > 1 && j.farVertex.Dist(s.At(text)) <= 1e-7*scale {
				knownFail(c, "flatten-cubic-vertex-beyond-end", fmt.Sprintf("output vertex %v is %g away from the curve (tol %g): it is the point t = %g of the cubic's extension", j.farVertex, j.vertexDev, tol, text), replay)
				return
			}
		}
	}
	if !j.orderOK && j.vertexDev <= tol+round {
		for _, s := range in {
			if twoInflectionsOrCusp(s) {
				// known defect class: overlapping inflection ranges in strokeCubicBezier emit B(t1max) and then
				// B(t2max) with t2max < t1max: the polyline runs backwards
				knownFail(c, "flatten-cubic-inflection-ranges-backtrack", j.msg, replay)
				return
			}
		}
		c.Fail("flatten-vertex-order", j.msg, replay)
		return
	}
	if j.vertexDev > tol+round {
		if j.vertexDev <= tol+round+floor {
			knownFail(c, "flatten-elliptic-arc-error-floor", fmt.Sprintf("an output vertex is %g away from the elliptic arc (tol %g)", j.vertexDev, tol), replay)
		} else {
			c.Fail("flatten-vertex-off-curve", fmt.Sprintf("an output vertex is %g away from the curve (tol %g)", j.vertexDev, tol), replay)
		}
		return
	}
	// verdict in Lean: for every single Bézier the observation (control points, tolerance, bound, rounding allowance, the real
	// output polyline) goes to the driver, which samples the curve itself and decides with `coveredBy`
	if len(in) == 2 && (in[1].Kind == 'Q' || in[1].Kind == 'C') && len(out) <= 600 {
		s := in[1]
		ctrl := []float64{s.P0.X, s.P0.Y, s.P1.X, s.P1.Y}
		deg := "2"
		if s.Kind == 'C' {
			ctrl = append(ctrl, s.P2.X, s.P2.Y)
			deg = "3"
		}
		ctrl = append(ctrl, s.End.X, s.End.Y, tol, boundFor(s), round)
		for _, o := range out {
			ctrl = append(ctrl, o.End.X, o.End.Y)
		}
		c.Case("HD "+deg+" "+hc.Hs(ctrl...), "!", "lean-verdict")
		c.Count("lean-verdict:" + string(s.Kind))
	}
	known := classify(j.worst)
	bound := boundFor(j.worst)
	ratio := math.Max(0, (j.curveDev-round)/tol)
	if known == "" {
		note(c, "curve-dev/tol:"+fam, ratio)
	} else {
		note(c, "curve-dev/tol:FOLDBACK:"+fam, math.Min(ratio, 1e6))
	}
	if ratio > bound {
		kind := "flatten-hausdorff"
		switch {
		case known != "":
			kind = known
		case j.worst.Kind == 'A' && j.curveDev-round <= bound*tol+floor:
			kind = "flatten-elliptic-arc-error-floor"
		}
		desc := fmt.Sprintf("curve (%c segment) is %g away from the polyline: %.3g x tolerance %g (bound %g x)", j.worst.Kind, j.curveDev, ratio, tol, bound)
		if kind == "flatten-hausdorff" {
			c.Fail(kind, desc, replay)
		} else {
			knownFail(c, kind, desc, replay)
		}
		return
	}
	c.Count("oracle-ok:" + fam)
}

// regressionInputs: the minimal inputs of the repaired defects (corpus/C03/fix-*.md); judged on every run so
// that a recurrence is reported with its input.
var regressionInputs = []struct {
	name, path string
	tols       []float64
}{
	{"fix-beyond-end 1552b69", "M5.25 13.188C-9 8.401 6 1.369 -1.929 6", []float64{1}},
	{"fix-beyond-end 0b69218 (cusp)", "M12.24 15.25C13.20719227693256 1.789999938632006 12.233508774840201 15.439999938632006 13.2 1.6", []float64{1}},
	{"fix-beyond-end 0b69218 (cusp)", "M8.36 17.2C12.686790015884446 -17.136022638468976 8.352797823589983 17.703977361531024 12.68 -17.64", []float64{0.3}},
	{"fix-backtrack 36c5472", "M4.75 -16.342C2.009085582444131 1.1275676600967628 4.744297569384708 -15.214432339903237 2 0", []float64{0.1, 0.01}},
	{"fix-end-inflection db1c93a", "M0.214 -15.896C16.371 -3 -0.854 19.91 -0.854 19.91", tolerances},
	{"fix-foldback-quad 717ff35", "M0 0Q2 0 1 0", tolerances},
	{"fix-foldback-quad 717ff35", "M0 0Q0.5 100 1 0", tolerances},
	{"fix-foldback-quad 717ff35", "M9 9L8 8M0 0Q1 0 0 0M5 5L6 6", tolerances},
	{"fix-lineto 219108c", "M-3 7.23Q-18.22 -18.615 -15.935 0Q-14.033 -8 -19.436 4.25L-3 11.485L-3 -5.576Q-8 10 -3 5z", []float64{1}},
}

func oracleCurves(c *hc.Ctx) {
	for _, r := range regressionInputs {
		p, err := canvas.ParseSVGPath(r.path)
		if err != nil {
			c.Fail("regression-input-unparsable", err.Error(), r.path)
			continue
		}
		for _, tol := range r.tols {
			flattenOne(c, p, tol, "regression:"+r.name)
		}
	}
	// quadratics and cubics, one curve per path, every tolerance: also checks error -> 0
	for it := 0; it < c.N; it++ {
		if c.Bool() {
			fam := quadFamilies[c.Intn(len(quadFamilies))]
			p0, p1, p2 := genQuad(c, fam)
			p := &canvas.Path{}
			p.MoveTo(p0.X, p0.Y)
			p.QuadTo(p1.X, p1.Y, p2.X, p2.Y)
			for _, tol := range tolsFor(c, fam) {
				flattenOne(c, p, tol, "quad:"+fam)
			}
		} else {
			fam := cubicFamilies[c.Intn(len(cubicFamilies))]
			p0, p1, p2, p3 := genCubic(c, fam)
			p := &canvas.Path{}
			p.MoveTo(p0.X, p0.Y)
			p.CubeTo(p1.X, p1.Y, p2.X, p2.Y, p3.X, p3.Y)
			for _, tol := range tolsFor(c, fam) {
				flattenOne(c, p, tol, "cubic:"+fam)
			}
		}
	}
	// arcs
	for it := 0; it < c.N/2; it++ {
		fam := arcFamilies[c.Intn(len(arcFamilies))]
		a := genArc(c, fam)
		p := a.path()
		d := p.Data()
		if len(d) != 12 || d[4] != canvas.ArcToCmd {
			continue
		}
		c.Count(fmt.Sprintf("oracle-arc-flags:large=%v,sweep=%v", a.large, a.sweep))
		for _, tol := range tolsFor(c, fam) {
			if canvas.Equal(d[5], d[6]) {
				flattenOne(c, p, tol, "arc-circle:"+fam)
			} else {
				flattenOne(c, p, tol, "arc-ellipse:"+fam)
			}
		}
	}
}

func oraclePaths(c *hc.Ctx) {
	for it := 0; it < c.N; it++ {
		kinds := []string{"LQ", "LQC", "LQCA", "QCAZ", "LAZ", "QC", "A"}[c.Intn(7)]
		p := c.GenPath(kinds, 5, 3)
		flattenOne(c, p, genTol(c), "path:"+kinds)
	}
}

// segSag bounds how far the dense polyline of one segment is from the segment itself. For samples at
// parameter step h the curve leaves the chord of two neighbouring samples by at most |S''| h^2 / 8, and
// |S''| h^2 is what the vector second difference sp[i-1] - 2 sp[i] + sp[i+1] measures (exactly for a
// quadratic, to first order otherwise). A quarter of its largest length is used (factor two of margin).
// The geometric distance of a sample from the chord of its neighbours is NOT a bound: at the tip of a
// thin hairpin two samples sit symmetrically around the tip and the chord hides it.
func segSag(sp []hc.P2) float64 {
	m := 0.0
	for i := 1; i+1 < len(sp); i++ {
		dd := sp[i-1].Add(sp[i+1]).Sub(sp[i].Mul(2))
		m = math.Max(m, dd.Len()/4)
	}
	return m
}

// curveSamples caches the dense evaluation of one input segment.
type curveSamples struct {
	seg hc.Seg
	sp  []hc.P2
	sag float64
}

func sampleCurve(s hc.Seg) curveSamples {
	if s.Kind == 'Q' || s.Kind == 'C' || s.Kind == 'A' {
		sp := hc.SampleSeg(s, dense)
		return curveSamples{s, sp, segSag(sp)}
	}
	return curveSamples{seg: s}
}

// distPointCurve: distance from v to the segment. First the distance to the dense inscribed polyline
// (the curve lies within cs.sag of it); every dense interval that could contain the nearest point is
// then re-sampled 64-fold, so narrow minima (second pass of a thin hairpin) cannot be missed.
func distPointCurve(v hc.P2, cs curveSamples) float64 {
	s := cs.seg
	if s.Kind == 'M' {
		return v.Dist(s.End)
	}
	if s.Kind == 'L' || s.Kind == 'Z' {
		return hc.DistPointSeg(v, s.P0, s.End)
	}
	n := len(cs.sp) - 1
	ds := make([]float64, n)
	m := math.Inf(1)
	for i := 0; i < n; i++ {
		ds[i] = hc.DistPointSeg(v, cs.sp[i], cs.sp[i+1])
		m = math.Min(m, ds[i])
	}
	best := math.Inf(1)
	tried := 0
	for i := 0; i < n && tried < 24; i++ {
		if ds[i] > m+2*cs.sag {
			continue
		}
		tried++
		const sub = 64
		lo, hi := float64(i)/float64(n), float64(i+1)/float64(n)
		for level := 0; level < 2; level++ {
			bk, bd := 0, math.Inf(1)
			prev := s.At(lo)
			for k := 1; k <= sub; k++ {
				q := s.At(lo + (hi-lo)*float64(k)/sub)
				if d := hc.DistPointSeg(v, prev, q); d < bd {
					bk, bd = k, d
				}
				prev = q
			}
			best = math.Min(best, bd)
			// zoom into the best sub-interval and its neighbours
			a := lo + (hi-lo)*math.Max(0, float64(bk-2))/sub
			b := lo + (hi-lo)*math.Min(sub, float64(bk+1))/sub
			lo, hi = a, b
		}
	}
	return best
}

// densify returns, per subpath, the dense polyline of its drawing segments.
func densify(segs []hc.Seg, n int) ([][]hc.P2, float64) {
	var out [][]hc.P2
	sag := 0.0
	for _, sub := range hc.Subpaths(segs) {
		out = append(out, densePoints(sub, n))
		for _, s := range sub {
			if s.Kind == 'Q' || s.Kind == 'C' || s.Kind == 'A' {
				sag = math.Max(sag, segSag(hc.SampleSeg(s, n)))
			}
		}
	}
	return out, sag
}

// samplesToCurve: max over 64 samples per segment of `from` of the distance to the curve `to`
func samplesToCurve(from, to []hc.Seg) float64 {
	var cs []curveSamples
	for _, s := range to {
		cs = append(cs, sampleCurve(s))
	}
	m := 0.0
	for _, s := range from {
		if s.Kind == 'M' {
			continue
		}
		for _, p := range hc.SampleSeg(s, 64) {
			d := math.Inf(1)
			for _, c := range cs {
				d = math.Min(d, distPointCurve(p, c))
			}
			m = math.Max(m, d)
		}
	}
	return m
}

// twoInflectionsOrCusp: the cubic has two inflection points or a (near) cusp, judged by sampling the
// sign of B' x B'' and the speed — independent of the library's solver.
func twoInflectionsOrCusp(s hc.Seg) bool {
	if s.Kind != 'C' {
		return false
	}
	d1 := [3]hc.P2{s.P1.Sub(s.P0).Mul(3), s.P2.Sub(s.P1).Mul(3), s.End.Sub(s.P2).Mul(3)}
	d2 := [2]hc.P2{d1[1].Sub(d1[0]).Mul(2), d1[2].Sub(d1[1]).Mul(2)}
	changes, last, minSpeed, maxSpeed := 0, 0.0, math.Inf(1), 0.0
	for i := 0; i <= 512; i++ {
		t := float64(i) / 512
		u := 1 - t
		v := d1[0].Mul(u * u).Add(d1[1].Mul(2 * u * t)).Add(d1[2].Mul(t * t))
		a := d2[0].Mul(u).Add(d2[1].Mul(t))
		k := cross(v, a)
		if k != 0 {
			if last != 0 && (k > 0) != (last > 0) {
				changes++
			}
			last = k
		}
		minSpeed, maxSpeed = math.Min(minSpeed, v.Len()), math.Max(maxSpeed, v.Len())
	}
	return changes >= 2 || minSpeed < 0.02*maxSpeed
}

// oneSided: max over points of a of the distance to polyline b
func oneSided(a, b []hc.P2) float64 {
	m := 0.0
	for _, p := range a {
		if d := hc.DistPointPolyline(p, b); d > m {
			m = d
		}
	}
	return m
}

// knownFail reports a failure of a recorded defect class; after a few examples per kind only the
// histogram is updated, so that the bounded failure list keeps room for unknown failures.
func knownFail(c *hc.Ctx, kind, desc string, replay any) {
	if c.Hist["FAIL:"+kind] < 4 {
		c.Fail(kind, desc, replay)
	} else {
		c.Hist["FAIL:"+kind]++
	}
}

func oracleReplaceArcs(c *hc.Ctx) {
	for it := 0; it < c.N; it++ {
		var p *canvas.Path
		fam := "path"
		if c.Chance(0.7) {
			fam = arcFamilies[c.Intn(len(arcFamilies))]
			p = genArc(c, fam).path()
		} else {
			p = c.GenPath([]string{"A", "LA", "LQCA", "AZ"}[c.Intn(4)], 4, 2)
		}
		in, err := hc.Decode(p.Data())
		if err != nil || len(in) < 2 {
			continue
		}
		c.Evals++
		var q *canvas.Path
		if msg := hc.Try(func() { q = p.ReplaceArcs() }); msg != "" {
			c.Fail("panic", "ReplaceArcs panicked: "+msg, p.String())
			continue
		}
		out, err := hc.Decode(q.Data())
		if err != nil {
			c.Fail("malformed-output", err.Error(), p.String())
			continue
		}
		replay := map[string]any{"path": p.String(), "data": hc.DataHex(p.Data()), "family": fam, "op": "ReplaceArcs"}
		bad := ""
		rmax := 0.0
		for _, s := range out {
			if s.Kind == 'A' {
				bad = "output still contains an arc"
			}
		}
		for _, s := range in {
			if s.Kind == 'A' {
				rmax = math.Max(rmax, s.Rx)
			}
		}
		scale := scaleOf(in)
		if bad == "" && !sigEqual(signature(in), signature(out), 1e-9*scale+2e-10) {
			bad = fmt.Sprintf("subpath signature changed: %v -> %v", signature(in), signature(out))
		}
		if bad != "" {
			c.Fail("replacearcs-structure", bad, replay)
			continue
		}
		if rmax == 0 {
			c.Count("replacearcs:no-arc")
			continue
		}
		a, sa := densify(in, 512)
		b, sb := densify(out, 512)
		dev := 0.0
		for k := range a {
			d := math.Max(oneSided(a[k], b[k]), oneSided(b[k], a[k])) - sa - sb
			dev = math.Max(dev, d)
		}
		rel := math.Max(0, dev-1e-9*scale) / rmax
		note(c, "replacearcs-dev/rx-x1e3:"+fam, rel*1000)
		c.Distinct(p.String())
		if rel > arcToCubeR {
			c.Fail("replacearcs-error", fmt.Sprintf("cubic replacement is %g away from the arc: %.3g x rx (bound %g)", dev, rel, arcToCubeR), replay)
			continue
		}
		c.Count("replacearcs-ok:" + fam)
	}
}

// xMonotone: the x coordinate along the segment never changes direction
func xMonotoneSeg(s hc.Seg, slack float64) bool {
	const n = 64
	up, down := false, false
	prev := s.At(0).X
	for i := 1; i <= n; i++ {
		x := s.At(float64(i) / n).X
		if x > prev+slack {
			up = true
		} else if x < prev-slack {
			down = true
		}
		if math.Abs(x-prev) > slack {
			prev = x
		}
	}
	return !(up && down)
}

// xmonoRegressions: the inputs of the repaired xmonotoneCubicBezier defect (2a055fa), judged on every run
var xmonoRegressions = []string{
	"M-8.074 9.388C-8.073994926 9.387998362 -8.073995926 9.388002578 -8.074000426 9.387972839",
	"M-9 8C-9.000002 10.764426545269671 -8.999998738011662 9.452452774248945 -9 10",
	"M-8 -8C-7.9999915 -7.999995 -8.000002428 -7.999995869 -7.999989 -7.999993",
}

func oracleXMonotone(c *hc.Ctx) {
	for it := 0; it < len(xmonoRegressions)+c.N; it++ {
		var p *canvas.Path
		fam := ""
		k := 4
		if it >= len(xmonoRegressions) {
			k = c.Intn(4)
		}
		switch k {
		case 4:
			fam = "regression:fix-xmonotone 2a055fa"
			p = canvas.MustParseSVGPath(xmonoRegressions[it])
		case 0:
			fam = "quad:" + quadFamilies[c.Intn(len(quadFamilies))]
			p0, p1, p2 := genQuad(c, fam[5:])
			p = &canvas.Path{}
			p.MoveTo(p0.X, p0.Y)
			p.QuadTo(p1.X, p1.Y, p2.X, p2.Y)
		case 1:
			fam = "cubic:" + cubicFamilies[c.Intn(len(cubicFamilies))]
			p0, p1, p2, p3 := genCubic(c, fam[6:])
			p = &canvas.Path{}
			p.MoveTo(p0.X, p0.Y)
			p.CubeTo(p1.X, p1.Y, p2.X, p2.Y, p3.X, p3.Y)
		case 2:
			fam = "arc:" + arcFamilies[c.Intn(len(arcFamilies))]
			p = genArc(c, fam[4:]).path()
		default:
			fam = "path"
			p = c.GenPath([]string{"LQ", "LQC", "LQCA", "QCAZ"}[c.Intn(4)], 4, 2)
		}
		in, err := hc.Decode(p.Data())
		if err != nil || len(in) < 2 {
			continue
		}
		c.Evals++
		var q *canvas.Path
		if msg := hc.Try(func() { q = p.XMonotone() }); msg != "" {
			c.Fail("panic", "XMonotone panicked: "+msg, p.String())
			continue
		}
		out, err := hc.Decode(q.Data())
		if err != nil {
			c.Fail("malformed-output", err.Error(), p.String())
			continue
		}
		replay := map[string]any{"path": p.String(), "data": hc.DataHex(p.Data()), "family": fam, "op": "XMonotone", "out": q.String()}
		scale := scaleOf(in)
		if !sigEqual(signature(in), signature(out), 1e-9*scale+2e-10) {
			c.Fail("xmonotone-structure", fmt.Sprintf("subpath signature changed: %v -> %v", signature(in), signature(out)), replay)
			continue
		}
		bad := false
		for _, s := range out {
			if s.Kind == 'M' {
				continue
			}
			if !xMonotoneSeg(s, 1e-9*scale) {
				// cause predicate of the recorded defect: xmonotoneCubicBezier hands the coefficients (a, b, c) of the
				// x-derivative of an input cubic to solveQuadraticFormula, and one of its ABSOLUTE tests
				// Equal(a,0), Equal(c,0), Equal(b*b-4ac, 0) (Epsilon 1e-10) fires although the same quantity is
				// not small relative to the coefficients (it would not fire after dividing by max(|a|,|b|,|c|))
				misfire := false
				for _, q := range in {
					if q.Kind == 'C' {
						a := -q.P0.X + 3*q.P1.X - 3*q.P2.X + q.End.X
						b := 2*q.P0.X - 4*q.P1.X + 2*q.P2.X
						cc := -q.P0.X + q.P1.X
						m := math.Max(math.Abs(a), math.Max(math.Abs(b), math.Abs(cc)))
						if m == 0 {
							continue
						}
						disc := b*b - 4*a*cc
						abs := func(v float64) bool { return math.Abs(v) <= canvas.Epsilon }
						if (abs(a) && !abs(a/m)) || (abs(cc) && !abs(cc/m)) || (abs(b) && !abs(b/m)) || (abs(disc) && !abs(disc/(m*m))) {
							misfire = true
						}
					}
				}
				if s.Kind == 'C' && misfire {
					knownFail(c, "xmonotone-tiny-curve-absolute-epsilon", "output C segment is not x-monotone; an absolute Epsilon test of solveQuadraticFormula fires on the x-derivative coefficients of an input cubic although the scale-free test would not", replay)
					bad = true
					break
				}
				c.Fail("xmonotone-not-monotone", fmt.Sprintf("output %c segment ending at %v is not x-monotone", s.Kind, s.End), replay)
				bad = true
				break
			}
		}
		if bad {
			continue
		}
		// samples of each path against the segments of the other one (distance with zoom refinement)
		dev := 0.0
		subsA, subsB := hc.Subpaths(in), hc.Subpaths(out)
		for k := range subsA {
			dev = math.Max(dev, math.Max(samplesToCurve(subsA[k], subsB[k]), samplesToCurve(subsB[k], subsA[k])))
		}
		note(c, "xmonotone-dev/scale-x1e9:"+strings.SplitN(fam, ":", 2)[0], math.Max(0, dev)/scale*1e6)
		c.Count(fmt.Sprintf("xmonotone:%s:pieces+%d", strings.SplitN(fam, ":", 2)[0], len(out)-len(in)))
		c.Distinct(p.String())
		if dev > 1e-7*scale {
			c.Fail("xmonotone-geometry", fmt.Sprintf("XMonotone moved the curve by %g", dev), replay)
			continue
		}
	}
}
